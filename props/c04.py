"""C04 — Symbolic derivatives equal the true derivatives (DESIGN.md §4 C04)."""
import numpy, sys, warnings
from hypothesis import strategies as st
from vlib.core import Sub, Violation, Discard
from vlib import genexpr, evharness

PROPERTY = 'C04'
LEVEL = 'exploration'
BUDGET = {'quick': 55, 'thorough': 560}
SHARDS = {'quick': 8, 'thorough': 16}
RULE = ('cases: G_ev programs restricted to differentiable operators (smooth pointwise functions, powers, products, quotients, inverse, determinant, '
        'take/inflate/diagonalize/ravel/unravel/transpose, choose with argument-free index, polyval with argument dependent coefficients and points, '
        'Legendre, loop sums and concatenations) with 1-3 float arguments, a drawn target argument and argument values shifted off the dyadic grid. '
        'oracle: evaluable.derivative(expr, arg) evaluated must have shape expr.shape+arg.shape and equal the 6-point central finite difference of the '
        '*numpy interpreter* along every coordinate of the argument (tolerance 1e-6*(1+max|J|)); the finite difference is validated by step halving and '
        'unreliable cases are discarded (counted). int/bool-valued programs must have an identically zero derivative; second derivatives are compared '
        'with the finite difference of the already checked nutils first derivative. non-trivial: >=3 operator nodes depend on the target, or a shared '
        'subterm / loop / inflate / take / polyval lies on the dependence path; distinct = (program, target) hash')
ASSUMPTIONS = ['numpy interpreter is the function being differentiated', 'finite differences with step halving self-check decide the true Jacobian to 1e-6 relative',
               'complex (holomorphic) derivatives and function.Custom partial derivatives are not generated in this version']

SMOOTH = None


@st.composite
def cases(draw, tier):
    big = tier == 'thorough' and draw(st.booleans())
    prog = draw(genexpr.programs(maxnodes=25 if big else 10, maxdepth=7 if big else 5, maxloops=2, dtypes=('float', 'int'), out_dtypes=('float', 'float', 'float', 'float', 'float', 'float', 'float', 'int'),
                                 differentiable=True, maxdim=2, arg_bias=3))
    return dict(prog=prog, target=draw(st.integers(0, 7)), second=draw(st.integers(0, 3)) == 0)


def shifted_args(prog):
    out = {}
    for k, (name, a) in enumerate(sorted(prog['args'].items())):
        v = genexpr._arr(a['value'], a['dtype'], a['shape'])
        if a['dtype'] == 'float':
            v = v + 0.0137 * (1 + numpy.arange(v.size).reshape(v.shape) % 3) * (-1) ** k + 0.003 * k
        out[name] = v
    return out


STENCIL = numpy.array([-1, 9, -45, 0, 45, -9, 1]) / 60.


def fd_jacobian(fun, x0, h):
    """6-point central differences of fun (array valued) w.r.t. every entry of x0; returns array f.shape + x0.shape"""
    cols = []
    for j in range(x0.size):
        acc = 0
        for c, m in zip(STENCIL, range(-3, 4)):
            if c == 0: continue
            x = x0.astype(float).reshape(-1).copy(); x[j] += m * h
            acc = acc + c * fun(x.reshape(x0.shape))
        cols.append(acc / h)
    f0 = fun(x0)
    if not cols:
        return numpy.zeros(f0.shape + x0.shape)
    return numpy.stack(cols, axis=-1).reshape(f0.shape + x0.shape)


def check(case, rec):
    from nutils import evaluable
    prog = case['prog']
    fargs = sorted(n for n, a in prog['args'].items() if a['dtype'] == 'float' and 'range' not in a)
    if not fargs:
        raise Discard('no-float-argument')
    good = [n for n in fargs if 1 <= int(numpy.prod(prog['args'][n]['shape'])) <= 8]
    if not good:
        raise Discard('target-size')
    tname = good[case['target'] % len(good)]
    ta = prog['args'][tname]
    args = shifted_args(prog)
    ref = genexpr.Ref(prog, smooth=True)

    def fun(x):
        a = dict(args); a[tname] = x
        return ref.run(args=a)[0].astype(float) if prog['nodes'][prog['outs'][0]]['t'][0] == 'float' else ref.run(args=a)[0]

    try:
        f0 = fun(args[tname])
        isint = f0.dtype.kind in 'bi'
        if not isint:
            J1 = fd_jacobian(fun, args[tname], 1e-2)
            J2 = fd_jacobian(fun, args[tname], 5e-3)
    except genexpr.NonFinite:
        raise Discard('reference-nonfinite')
    try:
        outs, built = genexpr.build(prog)
    except Exception as e:
        raise Violation('construct-raised', f'{type(e).__name__}: {e}', where='build:' + type(e).__name__)
    func = outs[0]
    target = evaluable.Argument(tname, tuple(evaluable.constant(int(s)) for s in ta['shape']), float)
    sys.setrecursionlimit(3000)
    try:
        d = evaluable.derivative(func, target)
    except Exception as e:
        raise Violation('derivative-raised', f'{type(e).__name__}: {str(e)[:300]}', where=type(e).__name__ + ':' + _frame(e))
    if d.ndim != func.ndim + target.ndim:
        raise Violation('derivative-shape', f'ndim {d.ndim} != {func.ndim}+{target.ndim}', where='shape')
    nn = len(prog['nodes'])
    evharness.clear_cache(d)
    with evharness.RewriteTrace(bound=8000 + 1500 * nn, record=False):
        try:
            d.simplified
        except (evharness.StepBound, RecursionError) as e:
            raise Violation('step-bound', f'simplification of the first derivative: {type(e).__name__} {e}', where='upstream-C01', classes=_classes(d))
        except Exception as e:
            if 'caught in a loop' in str(e):
                raise Violation('step-bound', f'simplification of the first derivative: {e}', where='upstream-C01', classes=_classes(d))
            raise Violation('derivative-simplify-raised', f'{type(e).__name__}: {str(e)[:300]}', where=type(e).__name__ + ':' + _frame(e))
    try:
        got = numpy.asarray(evaluable.eval_once(d, arguments=args))
    except Exception as e:
        raise Violation('derivative-eval-raised', f'{type(e).__name__}: {str(e)[:300]}', where=type(e).__name__ + ':' + _frame(e))
    if got.shape != f0.shape + args[tname].shape:
        raise Violation('derivative-shape', f'evaluated shape {got.shape} != {f0.shape}+{args[tname].shape}', where='shape')
    if isint:
        if got.size and numpy.any(got != 0):
            raise Violation('int-derivative-nonzero', f'{got.tolist()}', where='int')
        rec.label('int-valued')
    else:
        scale = 1 + (abs(J2).max() if J2.size else 0)
        if J2.size and abs(J1 - J2).max() > 1e-7 * scale:
            raise Discard('fd-unreliable')
        if not numpy.isfinite(got).all():
            raise Violation('derivative-nonfinite', f'{got.tolist()} where the function is smooth', where='nonfinite')
        if got.size and abs(got - J2).max() > 1e-6 * scale:
            # cross-check with unsimplified evaluation to attribute simplifier problems to C01
            try:
                raw = numpy.asarray(evaluable.eval_once(d, arguments=args, _simplify=False, _optimize=False))
                upstream = abs(raw - J2).max() <= 1e-6 * scale
            except Exception:
                upstream = False
            w = _where(prog, tname)
            raise Violation('derivative-mismatch', f'd/d{tname}: nutils {got.tolist()} vs finite difference {J2.tolist()} (max diff {abs(got - J2).max():.3e})'
                            + (' [unsimplified derivative is right: simplifier/optimiser issue]' if upstream else ''), where=('upstream-C01:' if upstream else '') + w)
    # second derivative (w.r.t. the same target) against FD of the nutils first derivative
    if case['second'] and not isint and args[tname].size <= 4 and got.size <= 64:
        try:
            d2 = evaluable.derivative(d, target)
            evharness.clear_cache(d2)
            with evharness.RewriteTrace(bound=15000 + 3000 * nn, record=False):
                d2.simplified
            got2 = numpy.asarray(evaluable.eval_once(d2, arguments=args))
        except (evharness.StepBound, RecursionError) as e:
            raise Violation('step-bound', f'simplification of the second derivative: {type(e).__name__} {e}', where='upstream-C01', classes=_classes(d2))
        except Exception as e:
            if 'caught in a loop' in str(e):
                raise Violation('step-bound', f'simplification of the second derivative: {e}', where='upstream-C01', classes=_classes(d2))
            raise Violation('second-derivative-raised', f'{type(e).__name__}: {str(e)[:300]}', where=type(e).__name__ + ':' + _frame(e))
        if got2 is not None:
            fcomp = evaluable.compile(d)

            def dfun(x):
                a = dict(args); a[tname] = x
                return numpy.asarray(fcomp(a))
            with numpy.errstate(all='ignore'):
                H1 = fd_jacobian(dfun, args[tname], 1e-2); H2 = fd_jacobian(dfun, args[tname], 5e-3)
            s2 = 1 + (abs(H2).max() if H2.size else 0)
            if numpy.isfinite(H2).all() and (not H2.size or abs(H1 - H2).max() <= 1e-7 * s2):
                if got2.shape != H2.shape or (H2.size and abs(got2 - H2).max() > 1e-5 * s2):
                    raise Violation('second-derivative-mismatch', f'nutils {got2.tolist()} vs FD of first derivative {H2.tolist()}', where='second:' + _where(prog, tname))
                rec.label('second-derivative')
    dep = _dependents(prog, tname)
    ops = {prog['nodes'][i]['op'] for i in dep}
    rec.label(*('op:' + o for o in ops))
    rec.nontrivial = len(dep) >= 4 or bool(ops & {'loopsum', 'loopcat', 'inflate', 'take', 'polyval', 'inv', 'det'})
    rec.key = None


def _classes(x):
    seen = set(); out = set(); stack = [x]
    while stack:
        y = stack.pop()
        if id(y) in seen: continue
        seen.add(id(y)); out.add(type(y).__name__)
        stack.extend(getattr(y, 'dependencies', ()))
    return sorted(out)


def _dependents(prog, tname):
    dep = set()
    for i, n in enumerate(prog['nodes']):
        if (n['op'] == 'arg' and n['p']['name'] == tname) or any(c in dep for c in n['ch']):
            dep.add(i)
    return dep


def _where(prog, tname):
    dep = _dependents(prog, tname)
    return '+'.join(sorted({prog['nodes'][i]['op'] for i in dep} - {'arg'}))[:80]


def _frame(e):
    import traceback
    for fr in reversed(traceback.extract_tb(e.__traceback__)):
        if 'nutils' in fr.filename:
            return fr.name
    return '?'


# ---- user-defined operations (function.Custom) ---------------------------------------------------------------------------------

ARGEXPR = ['x', 'y', 'x*y', 'x+1', '2*x', 'x**2', 'y-x', 'sin(x)']


@st.composite
def custom_cases(draw, tier):
    kind = draw(st.sampled_from(['mulsq', 'sinmul', 'lin', 'three', 'quot', 'mulsq']))
    n = {'three': 3}.get(kind, 2)
    slots = [draw(st.sampled_from(ARGEXPR)) for _ in range(n)]
    if draw(st.integers(0, 2)) == 0:
        slots = [slots[0]] * n      # the same array in every slot
    return dict(kind=kind, slots=slots, points=draw(st.booleans()), outer=draw(st.sampled_from(['none', 'square', 'sum', 'nested'])),
                x=[draw(st.sampled_from([-1.25, -.5, .5, .75, 2., 1.5])) for _ in range(3)], y=[draw(st.sampled_from([-1.25, -.5, .5, .75, 2., 1.5])) for _ in range(3)])


def check_custom(case, rec):
    """derivative of an expression containing a user-defined operation (with its own partial derivatives) vs finite differences of the same
    expression evaluated with numpy formulas"""
    from nutils import function, mesh
    from vlib import c04custom
    kind = case['kind']
    x = function.Argument('x', (3,)); y = function.Argument('y', (3,))
    x0 = numpy.array(case['x']); y0 = numpy.array(case['y'])
    def argval(e, X, Y, S):
        return {'x': X, 'y': Y, 'x*y': X * Y, 'x+1': X + 1, '2*x': 2 * X, 'x**2': X ** 2, 'y-x': Y - X, 'sin(x)': numpy.sin(X)}[e] * S
    with warnings.catch_warnings(), numpy.errstate(all='ignore'):
        warnings.simplefilter('ignore')
        if case['points']:
            topo, geom = mesh.line(2)
            smp = topo.sample('gauss', 2)
            s = geom + 1.
            S0 = numpy.asarray(smp.eval(s))[:, None]      # (npoints, 1)
        else:
            smp = None; s = 1.; S0 = numpy.ones((1, 1))
        args = [argval(e, x, y, s) for e in case['slots']]
        f = c04custom.Op(kind, *args)
        if case['outer'] == 'square': f = f * f
        elif case['outer'] == 'sum': f = f + x
        elif case['outer'] == 'nested': f = c04custom.Op('lin', f, x)
        def ref(X, Y):
            out = []
            for Sp in S0:
                v = c04custom.FORMULA[kind][0](*[argval(e, X, Y, Sp) for e in case['slots']])
                if case['outer'] == 'square': v = v * v
                elif case['outer'] == 'sum': v = v + X
                elif case['outer'] == 'nested': v = 2 * v - 3 * X
                out.append(v)
            return numpy.array(out)      # (npoints, 3)
        A = dict(x=x0, y=y0)
        ev = (lambda g: numpy.asarray(smp.eval(g, arguments=A))) if smp else (lambda g: numpy.asarray(function.eval(g, arguments=A))[None])
        try:
            val = ev(f)
        except Exception as e:
            raise Violation('eval-raised', f'Custom {kind}{case["slots"]}: {type(e).__name__}: {str(e)[:200]}', where='custom:eval:' + type(e).__name__)
        want = ref(x0, y0)
        if not numpy.isfinite(want).all(): raise Discard('reference-nonfinite')
        if val.shape != want.shape or abs(val - want).max() > 1e-11 * (1 + abs(want).max()):
            raise Violation('value-mismatch', f'Custom {kind}{case["slots"]} outer={case["outer"]}: value {val.tolist()} != {want.tolist()}', where='custom:value')
        for name, target, v0 in (('x', x, x0), ('y', y, y0)):
            if name not in f.arguments:
                continue
            try:
                d = ev(function.derivative(f, target))      # (npoints, 3, 3)
            except Exception as e:
                raise Violation('derivative-raised', f'd/d{name} of Custom {kind}{case["slots"]}: {type(e).__name__}: {str(e)[:200]}', where='custom:derivative:' + type(e).__name__)
            def fd(h):
                cols = []
                for k in range(3):
                    acc = 0
                    for c, m in zip(numpy.array([-1, 9, -45, 45, -9, 1]) / 60., [-3, -2, -1, 1, 2, 3]):
                        dv = numpy.zeros(3); dv[k] = m * h
                        acc = acc + c * (ref(x0 + dv, y0) if name == 'x' else ref(x0, y0 + dv))
                    cols.append(acc / h)
                return numpy.stack(cols, axis=-1)
            w1, w2 = fd(1e-2), fd(5e-3)
            if abs(w1 - w2).max() > 1e-8 * (1 + abs(w1).max()):
                raise Discard('finite-difference-not-converged')
            if d.shape != w2.shape or abs(d - w2).max() > 1e-7 * (1 + abs(w2).max()):
                raise Violation('derivative-mismatch', f'd/d{name} of Custom {kind}{case["slots"]} outer={case["outer"]} points={case["points"]}: nutils {d.tolist()} vs finite differences {w2.tolist()}', where='custom:derivative-mismatch')
            rec.label('custom-derivative-checked')
    rec.nontrivial = True
    rec.label('custom:' + kind, *(['custom:repeated-slot'] if len(set(case['slots'])) < len(case['slots']) else []), 'custom:outer=' + case['outer'], 'custom:points=%s' % case['points'])


# ---- virtual derivative targets: WithDerivative / IdentifierDerivativeTarget ----------------------------------------------------------------

@st.composite
def virtual_cases(draw, tier):
    return dict(G=draw(st.sampled_from(['sum(X*y*y)', 'sum(sin(X)*y)', 'sum(X*X*y)', 'X*y', 'sum(exp(X))*sum(y)', 'sum(X)'])), f0=draw(st.sampled_from(['zeros', 'zeros', 'half-y', 'const'])),
                D=draw(st.sampled_from(['const'])), own=draw(st.sampled_from([False, False, True])), nested=draw(st.booleans()),
                y=[draw(st.sampled_from([-1.25, -.5, .5, .75, 1.5])) for _ in range(3)], d=[draw(st.sampled_from([-1., -.5, .5, 1., 2.])) for _ in range(6)], c=[draw(st.sampled_from([-.5, .25, 1.])) for _ in range(3)])


def check_virtual(case, rec):
    """X = WithDerivative(f0(y), t, D) with a declared derivative D that does not depend on real arguments (as in the library's own use: the linear
    part of a coordinate transformation; the wrapper of an argument-dependent D is dropped when differentiating to that argument, so mixed partials would not
    commute there - outside what the wrapper is made for) behaves under differentiation like X(t, y) = f0(y) + D t at t = 0: first and mixed second derivatives of
    G(X, y) with respect to the virtual target t and the real argument y, in both orders, equal finite differences of that model"""
    from nutils import evaluable as ev
    c = ev.constant
    yv = numpy.array(case['y']); Dc = numpy.array(case['d']).reshape(3, 2); cv = numpy.array(case['c'])
    y = ev.Argument('y', (c(3),), float)
    t = ev.IdentifierDerivativeTarget('t', (c(2),))
    f0 = {'zeros': lambda: ev.zeros((c(3),)), 'half-y': lambda: y * c(.5), 'const': lambda: ev.asarray(cv)}[case['f0']]()
    f0n = {'zeros': lambda Y: numpy.zeros(3), 'half-y': lambda Y: .5 * Y, 'const': lambda Y: cv}[case['f0']]
    if case['D'] == 'const':
        D = ev.asarray(Dc); Dn = lambda Y: Dc
    else:
        D = ev.insertaxis(y, 1, c(2)) * ev.prependaxes(ev.asarray(Dc[0]), (c(3),)); Dn = lambda Y: Y[:, None] * Dc[0][None, :]
    X = ev.WithDerivative(f0, t, D)
    if case['nested']:      # an outer wrapper for another target must not disturb the inner one
        s = ev.IdentifierDerivativeTarget('s', (c(1),))
        X = ev.WithDerivative(X, s, ev.zeros((c(3), c(1))))
    G = case['G']
    def Gn(Xv, Y):
        return {'sum(X*y*y)': lambda: (Xv * Y * Y).sum(), 'sum(sin(X)*y)': lambda: (numpy.sin(Xv) * Y).sum(), 'sum(X*X*y)': lambda: (Xv * Xv * Y).sum(), 'X*y': lambda: Xv * Y,
                'sum(exp(X))*sum(y)': lambda: numpy.exp(Xv).sum() * Y.sum(), 'sum(X)': lambda: Xv.sum()}[G]()
    g = {'sum(X*y*y)': lambda: ev.Sum(X * y * y), 'sum(sin(X)*y)': lambda: ev.Sum(ev.sin(X) * y), 'sum(X*X*y)': lambda: ev.Sum(X * X * y), 'X*y': lambda: X * y,
         'sum(exp(X))*sum(y)': lambda: ev.Sum(ev.exp(X)) * ev.Sum(y), 'sum(X)': lambda: ev.Sum(X)}[G]()
    model = lambda T, Y: numpy.asarray(Gn(f0n(Y) + Dn(Y) @ T, Y))
    def fd(f, x0, h=1e-3):
        cols = []
        for k in range(len(x0)):
            acc = 0
            for cf, mm in zip(numpy.array([-1, 9, -45, 45, -9, 1]) / 60., [-3, -2, -1, 1, 2, 3]):
                dx = numpy.zeros(len(x0)); dx[k] = mm * h
                acc = acc + cf * f(x0 + dx)
            cols.append(acc / h)
        return numpy.stack(cols, axis=-1)
    T0 = numpy.zeros(2)
    want = dict(t=fd(lambda T: model(T, yv), T0), y=fd(lambda Y: model(T0, Y), yv),
                ty=fd(lambda Y: fd(lambda T: model(T, Y), T0), yv), yt=fd(lambda T: fd(lambda Y: model(T, Y), yv), T0), tt=fd(lambda T2: fd(lambda T: model(T, yv), T2), T0))
    targets = dict(t=t, y=y)
    args = dict(y=yv)
    for order in ('t', 'y', 'ty', 'yt', 'tt'):
        f = g
        try:
            for v in order: f = ev.derivative(f, targets[v])
            got = numpy.asarray(ev.eval_once(f, arguments=args))
        except Exception as e:
            raise Violation('derivative-raised', f'd/d{"d/d".join(order)} of {G} with X = WithDerivative({case["f0"]}, t, {case["D"]}): {type(e).__name__}: {str(e)[:200]}', where='virtual:raised:' + type(e).__name__)
        w = want[order]
        if got.shape != w.shape or abs(got - w).max() > 1e-6 * (1 + abs(w).max()):
            raise Violation('derivative-mismatch', f'd/d{" d/d".join(order)} of {G} with X = WithDerivative({case["f0"]}, t, {case["D"]}), nested={case["nested"]}: nutils {got.tolist()} vs the model X(t,y)=f0(y)+D(y)t {w.tolist()}', where='virtual:' + order)
    if case['own']:
        # the declared derivative wins over the derivative of the wrapped function, also when that function depends on the target itself
        W = ev.WithDerivative(ev.sin(y), y, ev.asarray(numpy.diag(cv)))
        got = numpy.asarray(ev.eval_once(ev.derivative(W, y), arguments=args))
        if not numpy.allclose(got, numpy.diag(cv)):
            raise Violation('derivative-mismatch', f'derivative(WithDerivative(sin(y), y, D), y) = {got.tolist()}, declared D = {numpy.diag(cv).tolist()}', where='virtual:own-target')
        got = numpy.asarray(ev.eval_once(ev.derivative(ev.Sum(W * W), y), arguments=args))
        if not numpy.allclose(got, 2 * numpy.sin(yv) @ numpy.diag(cv)):
            raise Violation('derivative-mismatch', f'derivative(sum(W*W), y) with W = WithDerivative(sin(y), y, D): {got.tolist()} != 2 sin(y) D', where='virtual:own-target-product')
        # the wrapped function used on its own elsewhere in the same expression keeps its own derivative, whichever of the two is visited first
        f = ev.sin(y); Dd = numpy.diag(cv); fv = numpy.sin(yv); own = numpy.diag(numpy.cos(yv))
        for name, expr, wantm in (('W + f*f', W + f * f, Dd + numpy.diag(2 * fv) @ own), ('f*f + W', f * f + W, Dd + numpy.diag(2 * fv) @ own),
                                  ('W * exp(f)', W * ev.exp(f), numpy.diag(numpy.exp(fv)) @ Dd + numpy.diag(fv * numpy.exp(fv)) @ own)):
            got = numpy.asarray(ev.eval_once(ev.derivative(expr, y), arguments=args))
            if got.shape != wantm.shape or not numpy.allclose(got, wantm, rtol=1e-10, atol=1e-12):
                raise Violation('derivative-mismatch', f'derivative({name}, y) with f = sin(y), W = WithDerivative(f, y, D): {got.tolist()} != {wantm.tolist()} (the bare f has its own derivative cos(y))', where='virtual:wrapped-and-bare')
        rec.label('virtual:own-target')
    rec.nontrivial = True
    rec.label('virtual:' + G, 'virtual:f0=' + case['f0'], 'virtual:D=' + case['D'])


SUBS = [Sub('jacobian', cases, check, {'quick': 2500, 'thorough': 25000}, weight=5, timeout=20),
        Sub('custom', custom_cases, check_custom, {'quick': 200, 'thorough': 3000}, weight=1, timeout=60),
        Sub('virtual', virtual_cases, check_virtual, {'quick': 200, 'thorough': 3000}, weight=1, timeout=60)]

def _singular_det(case, v):
    """the program takes the determinant (or inverse) of a matrix that is singular at the evaluation point"""
    prog = case['prog']
    if not any(n['op'] in ('det',) for n in prog['nodes']):
        return False
    ref = genexpr.Ref(prog)
    try:
        ref.run(args=shifted_args(prog))
    except genexpr.NonFinite:
        pass
    for (i, env), val in ref.cache.items():
        n = prog['nodes'][i]
        if n['op'] == 'det':
            for (j, env2), m in ref.cache.items():
                if j == n['ch'][0] and m.size and m.shape[-1] >= 1:
                    sv = numpy.linalg.svd(m.astype(float), compute_uv=False)
                    if (sv[..., -1] <= 1e-9 * (1 + sv[..., 0])).any():
                        return True
    return False


def _upstream_loop(case, v):
    classes = v.info.get('classes') or []
    if v.kind == 'hang':
        # the per-case timeout cannot inspect the expression; fall back to the structural over-approximation on the program
        ops = {n['op'] for n in case['prog']['nodes']}
        return bool(ops & {'inflate', 'take', 'diagonalize', 'product', 'det', 'inv'})
    return 'Diagonalize' in classes and ('Inflate' in classes or 'Take' in classes)   # same structural predicate as the C01 finding


TRIGGERS = {'det-of-singular-matrix': _singular_det, 'upstream-C01-inflate-diagonalize': _upstream_loop}

MANIFEST = dict(
    category='exploration',
    technique='property-based testing (Hypothesis): symbolic derivative of generated differentiable expression DAGs vs 6-point finite differences of an independent numpy interpreter (step-halving self-check)',
    text='For generated differentiable programs evaluable.derivative is evaluated and compared, entry by entry, with a 6-point central finite-difference Jacobian of the independent numpy '
         'interpreter (validated by step halving; unreliable cases discarded and counted); shape must be expr.shape+arg.shape; int-valued programs must have zero derivative; second '
         'derivatives are compared with finite differences of the checked first derivative. Held on everything explored; bounded sizes, real arguments only.',
    note='Trusted: numpy interpreter, finite differences (6-point, h=1e-2 and 5e-3 must agree to 1e-7), Hypothesis. Not covered: complex holomorphic derivatives, function.Custom.',
)
