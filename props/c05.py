"""C05 — Sparse extraction denotes exactly the dense array (DESIGN.md §4 C05)."""
import numpy, sys
from hypothesis import strategies as st
from vlib.core import Sub, Violation, Discard
from vlib import genexpr, evharness

PROPERTY = 'C05'
LEVEL = 'exploration'
BUDGET = {'quick': 50, 'thorough': 540}
SHARDS = {'quick': 8, 'thorough': 16}
RULE = ('cases: (a) G_ev programs of dimension 0..4 biased towards inflate/diagonalize/multiply/ravel/unravel/insertaxis/loops with '
        'element-dependent block sizes and empty axes; COO data from expr.simplified.assparse (and CSR via evaluable.as_csr for 2-D) is '
        'evaluated and checked two-directionally against the independent numpy interpreter: announced shape, 1-D values, indices in range, '
        'flat indices strictly increasing, CSR rowptr monotone from 0 to nnz, columns strictly increasing per row, dense reconstruction equal; '
        '(b) function-level as_coo/as_csr of FEM integrals on generated small meshes (structured/triangle/mixed, std/discont/spline bases, '
        'refined and hierarchical) against the dense evaluation. non-trivial: stored entries < dense size, or the program has a loop; distinct = case hash')
ASSUMPTIONS = ['numpy reference interpreter is the meaning of the program', 'programs whose simplification does not terminate within the C01 bound are skipped (C01 reports them)',
               'sub (b) compares two nutils evaluation paths (sparse vs dense) plus structural invariants']

SPARSE_OPS = None


def strategy(tier):
    big = tier == 'thorough'
    return genexpr.programs(maxnodes=30 if big else 12, maxdepth=7 if big else 5, maxloops=3 if big else 2, maxdim=3, family_bias=0.5, root_outer=0.15)


def _sparse_checks(values, indices, shape, want, tol, what):
    values = numpy.asarray(values)
    if tuple(int(s) for s in shape) != want.shape:
        raise Violation('shape', f'{what}: announced shape {tuple(shape)} != dense shape {want.shape}', where='shape')
    if values.ndim != 1:
        raise Violation('values-ndim', f'{what}: values has ndim {values.ndim}', where='values-ndim')
    if len(indices) != want.ndim:
        raise Violation('index-count', f'{what}: {len(indices)} index arrays for a {want.ndim}-d array', where='index-count')
    kinds = {'b': 'b', 'i': 'i', 'u': 'i', 'f': 'f', 'c': 'c'}
    if kinds[values.dtype.kind] != kinds[want.dtype.kind]:
        raise Violation('dtype', f'{what}: values dtype {values.dtype} for dense {want.dtype}', where='dtype')
    for k, idx in enumerate(indices):
        idx = numpy.asarray(idx)
        if idx.shape != values.shape or idx.dtype.kind not in 'iu':
            raise Violation('index-shape', f'{what}: index {k} has shape {idx.shape} dtype {idx.dtype}, values {values.shape}', where='index-shape')
        if idx.size and (idx.min() < 0 or idx.max() >= want.shape[k]):
            raise Violation('index-range', f'{what}: index {k} = {idx.tolist()} outside [0,{want.shape[k]})', where='index-range')
    if want.ndim == 0:
        if len(values) != 1:
            raise Violation('scalar-count', f'{what}: scalar has {len(values)} values', where='scalar-count')
        dense = values[0]
    else:
        flat = numpy.ravel_multi_index(tuple(numpy.asarray(i) for i in indices), want.shape) if values.size else numpy.zeros(0, int)
        if (numpy.diff(flat) <= 0).any():
            raise Violation('order', f'{what}: index tuples not unique and lexicographically increasing: flat={flat.tolist()}', where='order')
        dense = numpy.zeros(want.shape, dtype=values.dtype)
        dense[tuple(numpy.asarray(i) for i in indices)] = values
    bad = evharness.close(dense, want, tol)
    if bad:
        raise Violation('dense-mismatch', f'{what}: {bad}', where='dense')
    return len(values)


def check(prog, rec):
    from nutils import evaluable
    ref, want, args, tols = evharness.reference(prog)
    try:
        outs, built = genexpr.build(prog)
    except Exception as e:
        raise Violation('construct-raised', f'{type(e).__name__}: {e}', where='build:' + type(e).__name__)
    func, want, tol = outs[0], want[0], tols[0]
    nn = len(prog['nodes'])
    sys.setrecursionlimit(3000)
    evharness.clear_cache(func)
    with evharness.RewriteTrace(bound=4000 + 1000 * nn, record=False):
        try:
            simp = func.simplified
        except (evharness.StepBound, RecursionError):
            raise Discard('upstream-C01-nontermination')
        except Exception as e:
            if 'caught in a loop' in str(e):
                raise Discard('upstream-C01-nontermination')
            raise Discard('upstream-C01-simplify-raised')
    # upstream: is the dense value of the simplified expression right at all?
    try:
        dense = evaluable.eval_once(simp, arguments=args, _simplify=False, _optimize=False)
    except Exception:
        raise Discard('upstream-C01-eval-raised')
    if evharness.close(dense, want, tol) is not None:
        raise Discard('upstream-C01-value')
    try:
        values, indices, shape = simp.assparse
    except Exception as e:
        raise Violation('assparse-raised', f'{type(e).__name__}: {str(e)[:300]}', where=type(e).__name__ + ':' + _frame(e))
    impls = {type(x).__name__ for x in _walk(simp) if type(x).__dict__.get('_assparse') is not None}
    for opt in (False, True):
        try:
            v, idx, shp = evaluable.eval_once((values, tuple(indices), tuple(shape)), arguments=args, _simplify=opt, _optimize=opt)
        except Exception as e:
            raise Violation('sparse-eval-raised', f'[optimize={opt}] {type(e).__name__}: {str(e)[:300]}', where=type(e).__name__ + ':' + _frame(e))
        nnz = _sparse_checks(v, idx, shp, want, tol, f'coo[optimize={opt}]')
    if want.ndim == 2:
        try:
            v, rowptr, colidx, ncols = evaluable.eval_once(evaluable.as_csr(func), arguments=args)
        except Exception as e:
            raise Violation('csr-eval-raised', f'{type(e).__name__}: {str(e)[:300]}', where=type(e).__name__ + ':' + _frame(e))
        rowptr, colidx, v = numpy.asarray(rowptr), numpy.asarray(colidx), numpy.asarray(v)
        nr, nc = want.shape
        if int(ncols) != nc or rowptr.shape != (nr + 1,) or rowptr[0] != 0 or rowptr[-1] != len(v) or (numpy.diff(rowptr) < 0).any() or len(colidx) != len(v):
            raise Violation('csr-structure', f'rowptr={rowptr.tolist()} ncols={ncols} nnz={len(v)} for shape {want.shape}', where='csr-structure')
        rows = numpy.repeat(numpy.arange(nr), numpy.diff(rowptr))
        _sparse_checks(v, (rows, colidx), (nr, nc), want, tol, 'csr')
        rec.label('csr')
    rec.label(*('impl:' + k for k in impls))
    rec.label('ndim:%d' % want.ndim)
    if 0 in want.shape: rec.label('empty-axis')
    hasloop = any(n['op'] in ('loopsum', 'loopcat') for n in prog['nodes'])
    if hasloop: rec.label('has-loop')
    rec.nontrivial = nnz < want.size or hasloop
    if nnz < want.size: rec.label('sparsity-exploited')


def _walk(x):
    seen = set(); stack = [x]
    while stack:
        y = stack.pop()
        if id(y) in seen: continue
        seen.add(id(y)); yield y
        stack.extend(getattr(y, 'dependencies', ()))


def _frame(e):
    import traceback
    for fr in reversed(traceback.extract_tb(e.__traceback__)):
        if 'nutils' in fr.filename:
            return fr.name
    return '?'


# ---- (b) function level ---------------------------------------------------------------------

@st.composite
def fem_cases(draw, tier):
    kind = draw(st.sampled_from(['line', 'rect', 'tri', 'mixed', 'rect-refined', 'hier']))
    ne = draw(st.integers(1, 4 if tier == 'quick' else 6))
    btype = draw(st.sampled_from(['std', 'discont', 'spline', 'std']))
    degree = draw(st.integers(1, 2 if btype != 'discont' else 1)) if btype != 'discont' else draw(st.integers(0, 2))
    form = draw(st.sampled_from(['mass', 'stiff', 'vector', 'mixed-bases', 'rect-matrix', 'scalar', 'residual']))
    refine = sorted(set(draw(st.lists(st.integers(0, 30), max_size=3))))
    return dict(kind=kind, ne=ne, btype=btype, degree=degree, form=form, refine=refine, gdeg=draw(st.integers(1, 4)))


def check_fem(case, rec):
    from nutils import mesh, function
    kind, ne = case['kind'], case['ne']
    if kind == 'line':
        topo, geom = mesh.line(ne + 1, space='X')
        geom = geom[None] if geom.ndim == 0 else geom
    elif kind in ('rect', 'rect-refined', 'hier'):
        topo, geom = mesh.rectilinear([ne, max(1, ne - 1)])
    else:
        topo, geom = mesh.unitsquare(max(ne, 1), 'triangle' if kind == 'tri' else 'mixed')
    if kind == 'rect-refined':
        topo = topo.refined
    if kind == 'hier':
        sel = sorted({i % len(topo) for i in case['refine']})
        if sel:
            topo = topo.refined_by(sel)
    btype = case['btype']
    if btype == 'spline' and kind in ('tri', 'mixed'):
        btype = 'std'
    if kind == 'hier':
        btype = {'std': 'h-std', 'spline': 'th-spline', 'discont': 'discont'}[btype]
    try:
        basis = topo.basis(btype, degree=case['degree'])
        other = topo.basis('discont', degree=0)
    except Exception as e:
        raise Discard('basis-not-available')
    J = function.J(geom)
    form = case['form']
    if form == 'mass': integrand = basis[:, None] * basis[None, :]
    elif form == 'stiff': integrand = (function.grad(basis, geom)[:, None, :] * function.grad(basis, geom)[None, :, :]).sum(-1)
    elif form == 'vector': integrand = basis * geom[0]
    elif form == 'mixed-bases' or form == 'rect-matrix': integrand = basis[:, None] * other[None, :]
    elif form == 'scalar': integrand = geom[0] * geom[0]
    else:
        u = function.field('u', basis)
        integrand = function.derivative(u ** 3 + u * geom[0], 'u')
    I = topo.integral(integrand * J, degree=case['gdeg'])
    args = {}
    if form == 'residual':
        n = function.eval(basis.shape[0] if hasattr(basis.shape[0], 'as_evaluable_array') else basis.shape[0]) if False else len(basis)
        args = dict(u=numpy.linspace(-1, 1, n))
    try:
        dense = numpy.asarray(function.eval(I, arguments=args))
    except Exception as e:
        raise Discard('dense-eval-raised')
    try:
        values, *indices = function.eval(function.as_coo(I), arguments=args)
    except Exception as e:
        raise Violation('as-coo-raised', f'{type(e).__name__}: {str(e)[:300]}', where=type(e).__name__ + ':' + _frame(e))
    tol = 1e-12 * (1 + abs(dense).max() if dense.size else 1)
    nnz = _sparse_checks(values, indices, dense.shape, dense, tol, 'as_coo')
    if dense.ndim == 2:
        try:
            v, rowptr, colidx = function.eval(function.as_csr(I), arguments=args)
        except Exception as e:
            raise Violation('as-csr-raised', f'{type(e).__name__}: {str(e)[:300]}', where=type(e).__name__ + ':' + _frame(e))
        rowptr = numpy.asarray(rowptr); colidx = numpy.asarray(colidx); v = numpy.asarray(v)
        nr, nc = dense.shape
        if rowptr.shape != (nr + 1,) or rowptr[0] != 0 or rowptr[-1] != len(v) or (numpy.diff(rowptr) < 0).any() or len(colidx) != len(v):
            raise Violation('csr-structure', f'rowptr={rowptr.tolist()} nnz={len(v)} for shape {dense.shape}', where='csr-structure')
        rows = numpy.repeat(numpy.arange(nr), numpy.diff(rowptr))
        _sparse_checks(v, (rows, colidx), dense.shape, dense, tol, 'as_csr')
    rec.label('mesh:' + kind, 'basis:' + btype, 'form:' + form)
    rec.nontrivial = nnz < dense.size or dense.ndim == 0
    if nnz < dense.size: rec.label('sparsity-exploited')


# ---- generated sparsity patterns: (row, col, value) triplets scattered into a matrix -----------------------------------------------

BIG = [2 ** 53 + 1, -(2 ** 53) - 3, 2 ** 60 + 7, 3, -1, 0, 2 ** 31 + 5]


@st.composite
def pattern_cases(draw, tier):
    nrows, ncols = draw(st.integers(1, 6)), draw(st.integers(1, 5))
    m = draw(st.integers(0, 9))
    dtype = draw(st.sampled_from(['float', 'float', 'int', 'int-big', 'complex']))
    style = draw(st.sampled_from(['any', 'any', 'nnz-equals-nrows', 'row-blocks']))
    entries = [[draw(st.integers(0, nrows - 1)), draw(st.integers(0, ncols - 1))] for _ in range(m)]
    if style == 'nnz-equals-nrows' and nrows >= 2:
        # as many entries as rows, first row and last row occupied, some row empty and some row holding several entries
        rows = sorted([0, nrows - 1] + [draw(st.integers(0, nrows - 1)) for _ in range(nrows - 2)])
        entries = [[r, (k * 2 + r) % ncols] for k, r in enumerate(rows)]
    vals = [draw(st.sampled_from(BIG if dtype == 'int-big' else [1, 2, -3, 5, 7] if dtype == 'int' else [1.5, -2., .25, 3., -.5])) for _ in range(len(entries))]
    return dict(nrows=nrows, ncols=ncols, entries=entries, vals=vals, dtype=dtype, as_arg=draw(st.booleans()), twice=draw(st.booleans()))


def check_pattern(case, rec):
    from nutils import evaluable as ev
    nr, nc = case['nrows'], case['ncols']
    T = {'float': float, 'int': int, 'int-big': int, 'complex': complex}[case['dtype']]
    vals = numpy.array(case['vals'], dtype=T) if case['vals'] else numpy.zeros(0, dtype=T)
    if T is complex: vals = vals * (1 + .5j)
    rows = numpy.array([e[0] for e in case['entries']], dtype=int); cols = numpy.array([e[1] for e in case['entries']], dtype=int)
    want = numpy.zeros((nr, nc), dtype=T)
    numpy.add.at(want, (rows, cols), vals)
    v = ev.Argument('v', (ev.constant(len(vals)),), T) if case['as_arg'] else ev.constant(vals)
    args = dict(v=vals) if case['as_arg'] else {}
    flat = ev.Inflate(v, ev.constant(rows * nc + cols), ev.constant(nr * nc))
    A = ev.unravel(flat, 0, (ev.constant(nr), ev.constant(nc)))
    if case['twice']:
        A = A + A; want = want + want
    what = f'{nr}x{nc} {case["dtype"]} entries {case["entries"]}'
    try:
        dense = numpy.asarray(ev.eval_once(A, arguments=args))
    except Exception as e:
        raise Violation('dense-eval-raised', f'{what}: {type(e).__name__}: {str(e)[:200]}', where='pattern:dense:' + type(e).__name__)
    if dense.shape != want.shape or not (numpy.array_equal(dense, want) if T is int else numpy.allclose(dense, want, rtol=1e-14)):
        raise Violation('dense-mismatch', f'{what}: dense evaluation {dense.tolist()} != {want.tolist()}', where='pattern:dense')
    for opt in (False, True):
        try:
            values, (ri, ci), shape = A.simplified.assparse if opt else A.assparse
            cv, cr, cc = ev.eval_once((values, ri, ci), arguments=args, _simplify=opt, _optimize=opt)
        except Exception as e:
            raise Violation('sparse-eval-raised', f'{what} [simplify/optimize={opt}]: {type(e).__name__}: {str(e)[:200]}', where='pattern:coo:' + type(e).__name__)
        _sparse_checks(cv, (cr, cc), (nr, nc), want, 0 if T is int else 1e-13 * (1 + abs(want).max()), f'coo[{opt}] of {what}')
    try:
        v_, rowptr, colidx, ncols_ = ev.eval_once(ev.as_csr(A), arguments=args)
    except Exception as e:
        raise Violation('csr-eval-raised', f'{what}: {type(e).__name__}: {str(e)[:200]}', where='pattern:csr:' + type(e).__name__)
    v_, rowptr, colidx = numpy.asarray(v_), numpy.asarray(rowptr), numpy.asarray(colidx)
    if int(ncols_) != nc or rowptr.shape != (nr + 1,) or rowptr[0] != 0 or rowptr[-1] != len(v_) or (numpy.diff(rowptr) < 0).any() or len(colidx) != len(v_):
        raise Violation('csr-structure', f'{what}: rowptr={rowptr.tolist()} ncols={ncols_} nnz={len(v_)}', where='pattern:csr-structure')
    # the row pointers must count the entries of each row of the COO form
    counts = numpy.bincount(numpy.asarray(cr), minlength=nr) if len(numpy.asarray(cr)) else numpy.zeros(nr, int)
    if not numpy.array_equal(numpy.diff(rowptr), counts):
        raise Violation('csr-rowptr', f'{what}: rowptr {rowptr.tolist()} but the COO form has {counts.tolist()} entries per row', where='pattern:csr-rowptr')
    rws = numpy.repeat(numpy.arange(nr), numpy.diff(rowptr))
    _sparse_checks(v_, (rws, colidx), (nr, nc), want, 0 if T is int else 1e-13 * (1 + abs(want).max()), f'csr of {what}')
    nnz = len(v_)
    rec.nontrivial = nnz < nr * nc and nnz > 0
    rec.label('pattern:' + case['dtype'], *(['pattern:nnz==nrows'] if nnz == nr else []), *(['pattern:empty-row'] if (counts == 0).any() else []), *(['pattern:duplicates'] if len(set(map(tuple, case['entries']))) < len(case['entries']) else []))


SUBS = [Sub('coo', strategy, check, {'quick': 3000, 'thorough': 30000}, weight=3, timeout=25),
        Sub('fem', fem_cases, check_fem, {'quick': 25, 'thorough': 400}, weight=1, timeout=120),
        Sub('pattern', pattern_cases, check_pattern, {'quick': 400, 'thorough': 6000}, weight=1, timeout=30)]

def _upstream_c01(case, v):
    prog = case.get('prog', case)
    return genexpr.known_loop(prog)


TRIGGERS = {'upstream-C01-inflate-diagonalize': _upstream_c01}

MANIFEST = dict(
    category='exploration',
    technique='property-based testing (Hypothesis): sparse COO/CSR extraction of generated expression DAGs and FEM integrals, two-directional validity predicate + dense reconstruction vs numpy interpreter',
    text='For generated programs the COO data of expr.simplified.assparse and the CSR data of as_csr are evaluated and checked for announced shape, index range, uniqueness and '
         'lexicographic order, CSR row pointer/column invariants and exact dense reconstruction against the independent numpy interpreter; function-level as_coo/as_csr of FEM integrals '
         'on generated meshes are checked the same way against the dense evaluation. Held on everything explored; bounded sizes.',
    note='Trusted: numpy reference interpreter, Hypothesis; for the FEM sub the dense nutils evaluation. Failures that are already wrong densely are attributed to C01 and skipped here.',
)
