"""C11 — Element lookup and coordinate maps are consistent (DESIGN.md §4 C11)."""
import numpy, warnings, itertools
from hypothesis import strategies as st
from vlib.core import Sub, Violation, Discard
from vlib import gentopo

PROPERTY = 'C11'
LEVEL = 'exploration'
BUDGET = {'quick': 50, 'thorough': 500}
SHARDS = {'quick': 8, 'thorough': 16}
RULE = ('cases: (lookup) transform sequences of topologies produced by generated operation sequences (refine, refined_by, take, boundary, boundary groups, interfaces, trim) on line/rectilinear/'
        'periodic/3-D/triangle/mixed/multipatch/tetrahedral meshes - i.e. structured, plain, index, masked, reordered, derived and chained sequences as the library builds them - with generated '
        'elements i and tails of 0-3 child/edge transforms taken from the successive references: T.index(T[i])==i, T.index_with_tail(T[i]+tail)==(i,r) with apply(r)==apply(tail) and same '
        'fromdims, contains both ways, elements excluded by take are not found; (chains) raw chains walked through reference child/edge transforms of line/triangle/tetrahedron/square/cube/prism: '
        'canonical, uppermost and promote preserve the affine map and are idempotent; (coords) f_index/f_coords evaluate to i and the sample\'s own points; jump(geom)==0 on interfaces; locate() '
        'returns, in input order, points whose images are within tol of targets that are images of generated interior points, and raises LocateError outside the hull; (containers) generated expression trees '
        'over References (take in any order/with repeats, compress, index arrays, slices with negative step, chain, repeat, product, children, edges) and the PointsSequence of their points agree item by item with plain Python lists. '
        'non-trivial: >=2 operations or tail length >=2 mixing child and edge; distinct = case hash')
ASSUMPTIONS = ['apply() of individual transform items is the meaning of a chain (checked against geometry evaluation in the coords sub)', 'points used for comparing affine maps are generated dyadic points']


@st.composite
def lookup_cases(draw, tier):
    r = draw(gentopo.recipes(maxops=3 if tier == 'quick' else 5))
    return dict(mesh=r, elems=[draw(st.integers(0, 500)) for _ in range(4)], tails=[[draw(st.integers(0, 11)) for _ in range(draw(st.integers(0, 3)))] for _ in range(4)],
                pts=[draw(st.sampled_from([.125, .25, .5, .375, .0625])) for _ in range(6)], opposite=draw(st.booleans()))


def walk_tail(ref, steps):
    """chain of child/edge transforms starting at ref; step s: even -> child s//2, odd -> edge s//2 (modulo what is available)"""
    tail = []
    kinds = []
    for s in steps:
        if not ref or ref.ndims == 0:
            break
        if s % 2 == 0:
            if not hasattr(ref, 'child_transforms'):   # mosaic references have edges but no children
                cands = []
            else:
                cands = [(t, c) for t, c in zip(ref.child_transforms, ref.child_refs) if c]
            if not cands: break
            t, ref = cands[(s // 2) % len(cands)]; kinds.append('child')
        else:
            cands = [(t, e) for t, e in zip(ref.edge_transforms, ref.edge_refs) if e]
            if not cands: break
            t, ref = cands[(s // 2) % len(cands)]; kinds.append('edge')
        tail.append(t)
    return tuple(tail), ref, kinds


def check_lookup(case, rec):
    from nutils import transform
    topo0, topo, x, applied = gentopo.build(case['mesh'])
    if len(topo) == 0:
        raise Discard('empty-topology')
    seqs = [('transforms', topo.transforms)]
    if case['opposite'] and topo.opposites is not topo.transforms:
        seqs.append(('opposites', topo.opposites))
    mixed = False
    for name, T in seqs:
        if len(T) != len(topo):
            raise Violation('length', f'{name}: len {len(T)} != {len(topo)} elements', where='length')
        for e, steps in zip(case['elems'], case['tails']):
            i = e % len(T)
            chain = T[i]
            where = f'{type(T).__name__}'
            try:
                j = T.index(chain)
            except Exception as ex:
                raise Violation('index-raised', f'{name} {where}: index(T[{i}]) raised {type(ex).__name__}: {ex} (ops {applied})', where='index:' + where)
            if j != i:
                raise Violation('index-wrong', f'{name} {where}: index(T[{i}]) == {j} (ops {applied})', where='index:' + where)
            if not T.contains(chain):
                raise Violation('contains-wrong', f'{name} {where}: contains(T[{i}]) is False', where='contains:' + where)
            ref = topo.references[i]
            tail, endref, kinds = walk_tail(ref, steps)
            if name == 'opposites':
                tail = tuple(t for t, k in zip(tail, kinds) if k == 'child')[:0]   # tails are defined w.r.t. the element's own reference: use the empty tail on the opposite side
            try:
                j, r = T.index_with_tail(chain + tail)
            except Exception as ex:
                raise Violation('index-raised', f'{name} {where}: index_with_tail(T[{i}]+{tail}) raised {type(ex).__name__}: {ex} (ops {applied})', where='index_with_tail:' + where)
            if j != i:
                raise Violation('index-wrong', f'{name} {where}: index_with_tail(T[{i}]+tail) gave index {j} (ops {applied}, tail {tail})', where='index_with_tail:' + where)
            fd_tail = tail[-1].fromdims if tail else chain[-1].fromdims
            fd_r = r[-1].fromdims if r else chain[-1].fromdims
            if fd_tail != fd_r:
                raise Violation('tail-dims', f'{name} {where}: remainder has fromdims {fd_r}, tail {fd_tail}', where='tail:' + where)
            pts = numpy.array([case['pts'][:fd_tail], case['pts'][1:1 + fd_tail]]).reshape(2, fd_tail) if fd_tail else numpy.zeros((1, 0))
            a = transform.apply(tail, pts); b = transform.apply(r, pts)
            if a.shape != b.shape or not numpy.allclose(a, b, atol=1e-13):
                raise Violation('tail-map', f'{name} {where}: remainder {r} maps {pts.tolist()} to {b.tolist()}, tail {tail} to {a.tolist()}', where='tail:' + where)
            full = transform.apply(chain + tail, pts); full2 = transform.apply(T[j] + r, pts)
            if not numpy.allclose(full, full2, atol=1e-13):
                raise Violation('tail-map', f'{name} {where}: T[i]+remainder is another map than T[i]+tail', where='tail:' + where)
            if len(set(kinds)) == 2: mixed = True
            rec.label('seq:' + type(T).__name__)
        # a zero-length window T[k:k] contains nothing: contains() is False and the lookups raise ValueError (the documented outcome for an absent chain)
        if len(T) and case['elems']:
            k = case['elems'][0] % (len(T) + 1)
            E = T[k:k]
            chain = T[case['elems'][-1] % len(T)]
            where = f'{type(T).__name__}[k:k]->{type(E).__name__}'
            if len(E) != 0:
                raise Violation('length', f'{name} {where}: empty slice has length {len(E)}', where='empty-slice')
            try:
                found = E.contains(chain)
            except Exception as ex:
                raise Violation('contains-raised', f'{name} {where}: contains() of an empty slice raised {type(ex).__name__}: {ex}', where='empty-slice')
            if found:
                raise Violation('contains-wrong', f'{name} {where}: an empty slice contains T[i]', where='empty-slice')
            for meth in ('index', 'index_with_tail'):
                try:
                    getattr(E, meth)(chain)
                except ValueError:
                    pass
                except Exception as ex:
                    raise Violation('index-raised', f'{name} {where}: {meth}() of an empty slice raised {type(ex).__name__}: {ex} instead of ValueError', where='empty-slice')
                else:
                    raise Violation('index-wrong', f'{name} {where}: {meth}() of an empty slice did not raise', where='empty-slice')
            rec.label('empty-slice:' + type(E).__name__)
    if applied and applied[-1][0] == 'take' and topo.ndims == topo0.ndims:
        try:
            prev, _ = gentopo.apply_ops(topo0, x, applied[:-1])
        except Exception:
            prev = None
        if prev is not None and len(prev) > len(topo):
            T = topo.transforms; P = prev.transforms
            kept = {(i % len(prev)) for i in applied[-1][1]}
            for j in range(min(len(P), 12)):
                found = T.contains(P[j])
                if found != (j in kept):
                    raise Violation('contains-wrong', f'{type(T).__name__}: element {j} of the parent is {"found" if found else "not found"} after take({sorted(kept)})', where='contains-take')
                if not found:
                    try:
                        T.index(P[j])
                    except ValueError:
                        pass
                    else:
                        raise Violation('index-wrong', f'{type(T).__name__}: index() of a dropped element did not raise', where='index-take')
    rec.nontrivial = len(applied) >= 2 or mixed
    for a in applied: rec.label('op:' + a[0])
    rec.label('mesh:' + case['mesh']['kind'])


# ---- raw chains -------------------------------------------------------------------------------------------

@st.composite
def chain_cases(draw, tier):
    return dict(ref=draw(st.sampled_from(['line', 'triangle', 'tetrahedron', 'square', 'cube', 'prism', 'prism2'])), steps=[draw(st.integers(0, 15)) for _ in range(draw(st.integers(1, 4 if tier == 'quick' else 6)))],
                pts=[draw(st.sampled_from([.125, .25, .5, .375, .0625, .75])) for _ in range(6)], promote=draw(st.integers(0, 3)))


def check_chain(case, rec):
    from nutils import transform, element
    L, T, Q = element.LineReference(), element.TriangleReference(), element.TetrahedronReference()
    ref = dict(line=L, triangle=T, tetrahedron=Q, square=L * L, cube=L * L * L, prism=T * L, prism2=L * T)[case['ref']]
    chain, endref, kinds = walk_tail(ref, case['steps'])
    if not chain:
        raise Discard('empty-chain')
    fd = chain[-1].fromdims
    pts = numpy.array([case['pts'][:fd], case['pts'][2:2 + fd]]).reshape(2, fd) if fd else numpy.zeros((1, 0))
    want = transform.apply(chain, pts)
    forms = {'canonical': transform.canonical(chain), 'uppermost': transform.uppermost(chain)}
    nd = ref.ndims - case['promote']
    if fd <= nd <= ref.ndims:
        forms['promote'] = transform.promote(chain, nd)
    for name, c2 in forms.items():
        if c2[0].todims != chain[0].todims or c2[-1].fromdims != fd:
            raise Violation('form-dims', f'{name}({chain}) = {c2}: dimensions changed', where=name)
        got = transform.apply(c2, pts)
        if not numpy.allclose(got, want, atol=1e-13):
            raise Violation('form-map', f'{name}({chain}) = {c2} maps {pts.tolist()} to {got.tolist()}, original {want.tolist()}', where=name + ':' + '+'.join(sorted({type(t).__name__ for t in chain})))
        flips = lambda c: sum(bool(getattr(t, 'isflipped', False)) for t in c) % 2
        if flips(c2) != flips(chain):
            raise Violation('form-orientation', f'{name}({chain}) = {c2}: orientation parity changed', where=name + ':orientation')
    c = forms['canonical']
    if transform.canonical(c) != c or not transform.iscanonical(c):
        raise Violation('not-idempotent', f'canonical is not idempotent on {chain}', where='canonical:idempotent')
    u = forms['uppermost']
    if transform.uppermost(u) != u:
        raise Violation('not-idempotent', f'uppermost is not idempotent on {chain}', where='uppermost:idempotent')
    rec.nontrivial = len(set(kinds)) == 2 and len(chain) >= 2
    rec.label('ref:' + case['ref'], 'len:%d' % len(chain))
    for t in chain: rec.label('item:' + type(t).__name__)


# ---- coordinates, interfaces, locate ----------------------------------------------------------------------

@st.composite
def coord_cases(draw, tier):
    r = draw(gentopo.recipes(maxops=2, ops=('refine', 'refined_by', 'take', 'boundary', 'trim')))
    return dict(mesh=r, what=draw(st.sampled_from(['f_index', 'interfaces', 'locate', 'locate'])), sel=[draw(st.integers(0, 200)) for _ in range(5)], outside=draw(st.booleans()), degree=draw(st.integers(1, 3)),
                separable=_separable(draw, r))


def _separable(draw, r):
    if draw(st.integers(0, 2)):
        return None
    cs = [draw(st.sampled_from([0., 0., .3, -.2, .5])) for _ in range(3)]
    if draw(st.booleans()):      # nonlinear in exactly one direction
        k = draw(st.integers(0, 2)); cs = [c if i == k else 0. for i, c in enumerate(cs)]
        if not cs[k]: cs[k] = .4
    if r['kind'] in ('line', 'rect', 'rect3') and draw(st.booleans()):
        r['ops'] = []            # the plain structured mesh: its own locate implementation
    return cs


def check_coords(case, rec):
    from nutils import function, topology
    with warnings.catch_warnings():
        warnings.simplefilter('ignore')
        topo0, topo, x, applied = gentopo.build(case['mesh'])
        if len(topo) == 0:
            raise Discard('empty-topology')
        geom, gfun = gentopo.geometry(x, case['mesh']['geom'], topo0.ndims)
        if case.get('separable') and case['mesh']['kind'] in ('line', 'rect', 'rect3'):
            # axis-aligned geometry, (non)linear per direction: x_i -> x_i (1 + c_i x_i), monotone on the unit box (structured meshes detect
            # affine geometries of this form and locate by division)
            cs = case['separable'][:topo0.ndims]
            geom = numpy.stack([x[i] * (1 + c * x[i]) for i, c in enumerate(cs)])
            rec.label('separable-geometry')
        what = case['what']
        if what == 'f_index':
            smp = topo.sample('gauss', case['degree'])
            try:
                idx, crd = smp.eval([topo.f_index, topo.f_coords])
            except Exception as e:
                raise Violation('eval-raised', f'f_index/f_coords: {type(e).__name__}: {str(e)[:200]} (ops {applied})', where='f_index:' + type(e).__name__)
            for i in range(len(topo)):
                k = smp.getindex(i)
                if not (numpy.asarray(idx)[k] == i).all():
                    raise Violation('f_index', f'element {i}: f_index evaluates to {numpy.asarray(idx)[k].tolist()} (ops {applied})', where='f_index')
                pts = numpy.asarray(smp.points[i].coords)
                if not numpy.allclose(numpy.asarray(crd)[k], pts, atol=1e-14):
                    raise Violation('f_coords', f'element {i}: f_coords {numpy.asarray(crd)[k].tolist()} != sample points {pts.tolist()} (ops {applied})', where='f_coords')
            # the geometry evaluated through the sample equals the affine chain applied to the local points followed by the generated map
            X = numpy.asarray(smp.eval(geom))
            from nutils import transform
            for i in range(min(len(topo), 10)):
                k = smp.getindex(i)
                root = transform.apply(topo.transforms[i], numpy.asarray(smp.points[i].coords))
                if case['mesh']['kind'] in ('line', 'rect', 'rect3') and not any(a[0] in ('boundary',) for a in applied):
                    # root coordinates of rectilinear meshes are element counts: scale by the uniform spacing
                    continue
            rec.label('f_index')
        elif what == 'interfaces':
            if topo.ndims != topo0.ndims:
                raise Discard('not-a-volume-topology')
            if case['mesh']['kind'] == 'periodic':
                raise Discard('geometry-not-periodic')
            if any(a[0] == 'take' for a in applied):
                raise Discard('selection-has-no-connectivity')
            try:
                ifaces = topo.interfaces
            except AttributeError:
                raise Discard('interfaces-not-supported-for-this-topology')   # e.g. trimmed hierarchical topology (reported by C10)
            if len(ifaces) == 0:
                raise Discard('no-interfaces')
            smp = ifaces.sample('gauss', case['degree'])
            j = numpy.asarray(smp.eval(function.jump(geom)))
            if abs(j).max() > 1e-12:
                raise Violation('interface-jump', f'jump(geom) on interfaces is {abs(j).max():.3e} (ops {applied}, mesh {case["mesh"]["kind"]})', where='jump:' + type(topo).__name__)
            rec.label('interfaces')
        else:
            if topo.ndims != topo0.ndims:
                raise Discard('not-a-volume-topology')
            smp = topo.sample('gauss', 2) if case['degree'] > 1 else topo.sample('gauss', 1)
            X = numpy.asarray(smp.eval(geom))
            sel = [s % len(X) for s in case['sel']]
            targets = X[sel]
            try:
                located = topo.locate(geom, targets, tol=1e-10, eps=1e-12)
            except Exception as e:
                raise Violation('locate-raised', f'{type(e).__name__}: {str(e)[:200]} for targets that are images of interior points (ops {applied}, mesh {case["mesh"]["kind"]}, geom {case["mesh"]["geom"]["kind"]})', where='locate:' + type(e).__name__)
            Y = numpy.asarray(located.eval(geom))
            if Y.shape != targets.shape or abs(Y - targets).max() > 1e-8:
                raise Violation('locate-wrong', f'located points map to {Y.tolist()}, targets {targets.tolist()} (ops {applied})', where='locate:value')
            if case['outside']:
                far = targets + 100.
                try:
                    topo.locate(geom, far, tol=1e-10, eps=1e-12)
                except topology.LocateError:
                    pass
                except Exception as e:
                    raise Violation('locate-raised', f'target outside the domain: {type(e).__name__}: {str(e)[:200]} instead of LocateError', where='locate-outside:' + type(e).__name__)
                else:
                    raise Violation('locate-wrong', 'target far outside the domain was located', where='locate-outside')
                m = topo.locate(geom, numpy.concatenate([targets[:1], far[:1]]), tol=1e-10, eps=1e-12, skip_missing=True)
                if m.npoints != 1:
                    raise Violation('locate-wrong', f'skip_missing kept {m.npoints} of 2 points (one is outside)', where='locate-skip')
            rec.label('locate', 'geom:' + case['mesh']['geom']['kind'])
    rec.nontrivial = len(applied) >= 1 or case['mesh']['geom']['kind'] != 'identity'
    rec.label('mesh:' + case['mesh']['kind'])



# ---- compressed containers (References / PointsSequence) against plain Python lists ------------------------------------------

_LEAF_KINDS = ['plain', 'plain', 'uniform', 'empty']
_OPS = ['take', 'take', 'compress', 'chain', 'chain', 'repeat', 'product', 'children', 'edges', 'slice', 'getitem_mask']


@st.composite
def container_cases(draw, tier):
    """an expression tree over sequences of 2-D (or, for product operands, 1-D) references; every index/mask/count is drawn as a list of
    integers and reduced modulo the current length when the tree is interpreted, so that a case is valid whatever the lengths turn out to be"""
    def leaf(nd):
        kind = draw(st.sampled_from(_LEAF_KINDS))
        n = draw(st.integers(1, 4))
        return dict(t='leaf', kind=kind, nd=nd, items=[draw(st.integers(0, 2)) for _ in range(n)])

    def tree(depth, nd):
        if depth <= 0 or draw(st.integers(0, 4)) == 0:
            return leaf(nd)
        op = draw(st.sampled_from(_OPS))
        if op in ('take', 'compress', 'getitem_mask'):
            return dict(t=op, a=tree(depth - 1, nd), idx=[draw(st.integers(0, 11)) for _ in range(draw(st.integers(0, 5)))], full=draw(st.integers(0, 3)) == 0)
        if op == 'slice':
            return dict(t=op, a=tree(depth - 1, nd), start=draw(st.sampled_from([None, 0, 1, -1, -2])), stop=draw(st.sampled_from([None, None, 0, 2, -1])), step=draw(st.sampled_from([None, 1, -1, 2, -2])))
        if op == 'chain':
            return dict(t=op, a=tree(depth - 1, nd), b=tree(depth - 1, nd))
        if op == 'repeat':
            return dict(t=op, a=tree(depth - 1, nd), count=draw(st.integers(0, 3)))
        if op == 'product':
            if nd != 2: return leaf(nd)
            return dict(t=op, a=tree(depth - 1, 1), b=tree(depth - 1, 1))
        if op in ('children', 'edges'):
            # children keep the dimension; edges lower it, so the operand lives one dimension up (only available from 2 -> 1 and 3 -> 2: keep it simple: 2-D edges of 3-D not generated)
            if op == 'edges':
                if nd != 1: return leaf(nd)
                return dict(t=op, a=tree(depth - 1, 2))
            return dict(t=op, a=tree(depth - 1, nd))
        return leaf(nd)

    return dict(tree=tree(3 if tier == 'quick' else 4, 2), scheme=draw(st.sampled_from(['gauss', 'bezier', 'vertex'])), degree=draw(st.integers(2, 3)),     # bezier needs at least two points per direction
                final=[draw(st.integers(0, 11)) for _ in range(draw(st.integers(0, 6)))])


def _pool(nd):
    from nutils import element
    line = element.LineReference()
    if nd == 1:
        return [line, line, line]       # one reference of dimension 1: uniformity is the interesting part
    return [line ** 2, element.TriangleReference(), line ** 2]


def _interp_container(node, stats):
    """returns (sequence, list model)"""
    from nutils import elementseq
    t = node['t']
    if t == 'leaf':
        pool = _pool(node['nd'])
        if node['kind'] == 'empty':
            return elementseq.References.empty(node['nd']), []
        if node['kind'] == 'uniform':
            ref = pool[node['items'][0]]
            return elementseq.References.uniform(ref, len(node['items'])), [ref] * len(node['items'])
        items = [pool[i] for i in node['items']]
        return elementseq.References.from_iter(items, node['nd']), items
    a, ma = _interp_container(node['a'], stats)
    n = len(ma)
    if t == 'take':
        idx = [i % n for i in node['idx']] if n else []
        if node['full'] and n: idx = [(i + k) % n for k, i in enumerate((node['idx'] + [0] * n)[:n])]      # exactly len(self) indices, any order, repeats allowed
        if idx != sorted(idx): stats.add('take-unsorted')
        if len(set(idx)) < len(idx): stats.add('take-repeats')
        return a.take(numpy.array(idx, dtype=int)), [ma[i] for i in idx]
    if t in ('compress', 'getitem_mask'):
        pat = node['idx'] + [1, 0, 1, 1, 0, 1, 0, 0, 1, 1, 0, 1, 0]
        mask = [bool(pat[k % len(pat)] % 2) for k in range(n)]
        if node['full']: mask = [True] * n
        m = numpy.array(mask, dtype=bool)
        return (a.compress(m) if t == 'compress' else a[m]), [x for x, k in zip(ma, mask) if k]
    if t == 'slice':
        s = slice(node['start'], node['stop'], node['step'])
        if (node['step'] or 1) < 0: stats.add('reversed-slice')
        return a[s], ma[s]
    if t == 'repeat':
        return a.repeat(node['count']), ma * node['count']
    if t == 'children':
        return a.children, [c for r in ma for c in r.child_refs]
    if t == 'edges':
        return a.edges, [e for r in ma for e in r.edge_refs]
    b, mb = _interp_container(node['b'], stats)
    if t == 'chain':
        if isinstance(a, type(b)) or True: stats.add('chain')
        return a.chain(b), ma + mb
    if t == 'product':
        return a.product(b), [x * y for x in ma for y in mb]
    raise NotImplementedError(t)


def _kinds_of(node, out):
    out.add(node['t'] if node['t'] != 'leaf' else 'leaf:' + node['kind'])
    for k in ('a', 'b'):
        if k in node: _kinds_of(node[k], out)
    return out


def check_containers(case, rec):
    from nutils import elementseq, pointsseq
    stats = set()
    descr = str(case['tree'])[:300]
    try:
        seq, model = _interp_container(case['tree'], stats)
    except Exception as e:
        raise Violation('container-raised', f'building {descr}: {type(e).__name__}: {str(e)[:200]}', where='containers:raised:' + type(e).__name__)

    def compare(seq, model, what):
        if len(seq) != len(model):
            raise Violation('container-length', f'{what} of {descr}: len {len(seq)}, list semantics give {len(model)}', where='containers:length:' + type(seq).__name__)
        got = list(seq)
        for i, (g, m) in enumerate(zip(got, model)):
            if g != m:
                raise Violation('container-item', f'{what} of {descr}: item {i} is {g}, list semantics give {m} (container {type(seq).__name__})', where='containers:item:' + type(seq).__name__)
        for i in range(len(model)):
            if seq.get(i) != model[i] or seq[i] != model[i]:
                raise Violation('container-item', f'{what} of {descr}: get({i}) is {seq.get(i)}, iteration gives {model[i]} (container {type(seq).__name__})', where='containers:get:' + type(seq).__name__)
        if bool(seq) != bool(model):
            raise Violation('container-length', f'{what} of {descr}: bool() is {bool(seq)} for {len(model)} items', where='containers:bool')
        if hasattr(seq, 'isuniform') and model and seq.isuniform and any(m != model[0] for m in model):
            raise Violation('container-item', f'{what} of {descr}: isuniform although the items differ', where='containers:isuniform')

    compare(seq, model, 'sequence')
    n = len(model)
    # a final selection in arbitrary order on whatever container class the tree produced, through every spelling
    idx = [i % n for i in case['final']] if n else []
    if idx != sorted(idx): stats.add('take-unsorted')
    compare(seq.take(numpy.array(idx, dtype=int)), [model[i] for i in idx], f'take({idx})')
    compare(seq[numpy.array(idx, dtype=int)], [model[i] for i in idx], f'[{idx}]')
    compare(seq[::-1], model[::-1], '[::-1]')
    compare(seq + seq[::-1], model + model[::-1], 'self + self[::-1]')
    # the points of the sequence: same algebra one level down
    with warnings.catch_warnings():
        warnings.simplefilter('ignore')
        try:
            pts = seq.getpoints(case['scheme'], case['degree'])
            pmodel = [r.getpoints(case['scheme'], case['degree']) for r in model]
        except Exception as e:
            raise Violation('container-raised', f'getpoints({case["scheme"]}, {case["degree"]}) of {descr}: {type(e).__name__}: {str(e)[:200]}', where='containers:getpoints:' + type(e).__name__)
    compare(pts, pmodel, 'getpoints')
    if pts.npoints != sum(p.npoints for p in pmodel):
        raise Violation('container-length', f'getpoints of {descr}: npoints {pts.npoints}, items add up to {sum(p.npoints for p in pmodel)}', where='containers:npoints:' + type(pts).__name__)
    compare(pts.take(numpy.array(idx, dtype=int)), [pmodel[i] for i in idx], f'getpoints.take({idx})')
    compare(pts[::-1], pmodel[::-1], 'getpoints[::-1]')
    sel = pts.take(numpy.array(idx, dtype=int))
    if sel.npoints != sum(pmodel[i].npoints for i in idx):
        raise Violation('container-length', f'getpoints.take({idx}) of {descr}: npoints {sel.npoints}, items add up to {sum(pmodel[i].npoints for i in idx)}', where='containers:npoints:' + type(sel).__name__)
    if n and case['scheme'] == 'bezier':
        # tri/hull index into the concatenated points: every simplex must stay within one element's block of points
        offsets = numpy.cumsum([0] + [p.npoints for p in pmodel])
        for name in ('tri', 'hull'):
            try:
                arr = numpy.asarray(getattr(pts, name))
            except Exception as e:
                raise Violation('container-raised', f'getpoints.{name} of {descr}: {type(e).__name__}: {str(e)[:200]}', where='containers:' + name + ':' + type(e).__name__)
            want = numpy.concatenate([numpy.asarray(getattr(p, name)) + o for p, o in zip(pmodel, offsets)]) if pmodel else arr
            if arr.shape != want.shape or (arr != want).any():
                raise Violation('container-item', f'getpoints.{name} of {descr} differs from the items\' own {name} shifted by the point offsets', where='containers:' + name + ':' + type(pts).__name__)
    kinds = _kinds_of(case['tree'], set())
    rec.nontrivial = len(kinds - {'leaf:plain', 'leaf:uniform', 'leaf:empty'}) >= 1 and n > 0
    rec.label(*('container-op:' + k for k in kinds), *('container:' + s for s in stats), 'container-class:' + type(seq).__name__, 'container-len:%s' % ('0' if n == 0 else '1' if n == 1 else '2-5' if n <= 5 else '6+'))


SUBS = [Sub('lookup', lookup_cases, check_lookup, {'quick': 150, 'thorough': 3000}, weight=3, timeout=120),
        Sub('chains', chain_cases, check_chain, {'quick': 2000, 'thorough': 40000}, weight=1),
        Sub('coords', coord_cases, check_coords, {'quick': 250, 'thorough': 3000}, weight=2, timeout=120),
        Sub('containers', container_cases, check_containers, {'quick': 1500, 'thorough': 30000}, weight=1)]

TRIGGERS = {}

MANIFEST = dict(
    category='exploration',
    technique='property-based testing (Hypothesis): round-trip and metamorphic oracles on transform sequences of generated topologies, generated child/edge chains, element index/coordinate functions, interface continuity and locate(); model-based testing of the compressed element/points containers against Python lists',
    text='For topologies produced by generated operation sequences on eight mesh kinds every sampled element satisfies index/index_with_tail/contains round trips with generated child/edge tails (remainder must be the same affine map); '
         'canonical/uppermost/promote must preserve the affine map and orientation parity of generated chains and be idempotent; f_index/f_coords must reproduce the sample; jump(geom) must vanish on interfaces; locate() must '
         'return points mapping to the targets in order and raise LocateError outside. Held on everything explored.',
    note='Trusted: transform item apply(); Hypothesis. Chains are generated by walking reference elements (covers the item classes the library produces), not arbitrary item combinations.',
)
