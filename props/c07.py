"""C07 — Function arrays follow NumPy semantics at every point (DESIGN.md §4 C07)."""
import numpy, warnings, re
from hypothesis import strategies as st
from vlib.core import Sub, Violation, Discard
from vlib import genfunc

PROPERTY = 'C07'
LEVEL = 'exploration'
BUDGET = {'quick': 55, 'thorough': 550}
SHARDS = {'quick': 8, 'thorough': 16}
RULE = ('cases: compositions of up to 6 (quick) / 12 (thorough) NumPy-API calls (arithmetic with broadcasting and kind promotion, reductions with axis arguments, __getitem__ with ints, negative ints, '
        'slices with steps, ellipsis, newaxis and index arrays, take, reshape/ravel/transpose/swapaxes/repeat/broadcast_to, diagonal/trace, stack/concatenate, matmul/dot/vdot/cross/einsum, norm/det, '
        'comparisons and logical operators, choose, searchsorted, interp, compress, Python operators) over constants of the four kinds, arguments, geometry, element index, local coordinates and a basis, '
        'evaluated on Gauss/bezier samples of line, rectilinear, triangle and mixed meshes, boundary samples and product samples over two spaces. oracle: the operands are evaluated on the sample and '
        'the same NumPy calls are applied point by point; shape, element kind (bool/int/float/complex) and values must agree (exact for bool/int). Operations nutils refuses at construction are accepted only '
        'when the message is one of the catalogued explicit restrictions. Rejection cases (one corrupted axis) must raise at construction. non-trivial: >=2 nested calls, >=1 operand varying over the sample '
        'and >=1 of {broadcasting, non-trivial getitem/take, axis argument}; distinct = case hash')
ASSUMPTIONS = ['per-point NumPy evaluation on the 64-bit representative of each kind is the reference', 'kink-sensitive operations (comparisons, sign, floor-divide, mod, min/max, searchsorted, choose) are generated only on exactly representable (dyadic) operands',
               'boolean operands are generated for logical operations, any/all/sum, comparisons\' results, stack/concatenate and indexing only (DESIGN.md C07 domain note)']

# explicit restrictions coded in nutils (message fragments); anything else raised at construction is a violation
RESTRICTED = ['only axes with length 1 can be repeated', 'axis lengths do not match', 'boolean', 'Boolean', 'complex', 'Complex', 'not supported for', 'is not defined for', 'requires', 'only implemented for', 'cannot be', 'Cannot', 'integer reciprocal', 'ordering']


@st.composite
def sample_spec(draw):
    kind = draw(st.sampled_from(['line', 'rect', 'tri', 'mixed', 'rect-boundary', 'product', 'product']))
    return dict(kind=kind, n=draw(st.integers(1, 2)), scheme=draw(st.sampled_from([['gauss', 1], ['gauss', 2], ['bezier', 2]])))


def sample_dims(s):
    return {'line': 1, 'rect': 2, 'tri': 2, 'mixed': 2, 'rect-boundary': 2, 'product': 2}[s['kind']]


def basis_size(s):
    n = s['n']
    return {'line': n + 2, 'rect': (n + 1) * (n + 2), 'tri': (n + 1) ** 2, 'mixed': 9, 'rect-boundary': (n + 1) * (n + 2), 'product': n + 2}[s['kind']]


@st.composite
def cases(draw, tier):
    smp = draw(sample_spec())
    leaves = draw(genfunc.leaf_specs())
    d = sample_dims(smp)
    for l in leaves:
        if l['t'] in ('const', 'arg'):
            l['dummy'] = genfunc.norm64(genfunc.leaf_value(l)); l['varying'] = False
        elif l['t'] == 'geom' or l['t'] == 'coords':
            l['dummy'] = numpy.linspace(.25, .75, d); l['varying'] = True; l['exact'] = False   # quadrature points are not dyadic
        elif l['t'] == 'index':
            l['dummy'] = numpy.int64(1); l['varying'] = True
        else:
            l['dummy'] = numpy.linspace(0, 1, basis_size(smp)); l['varying'] = True; l['exact'] = False
    g = genfunc.Gen(draw, leaves, 6 if tier == 'quick' else 12)
    nops = draw(st.integers(2, g.maxops))
    tries = 0
    while len(g.nodes) < nops and tries < 4 * nops:
        g.step(); tries += 1
    for l in leaves:
        l.pop('dummy', None); l.pop('varying', None); l.pop('exact', None)
    return dict(sample=smp, leaves=leaves, nodes=g.nodes, cast=[draw(st.booleans()) for _ in leaves], features=sorted(g.features))


def build_sample(s):
    from nutils import mesh, function
    kind, n = s['kind'], s['n']
    scheme, deg = s['scheme']
    if kind == 'line':
        topo, x = mesh.line(numpy.linspace(0, 1, n + 2)); x = x[None]
    elif kind in ('rect', 'rect-boundary'):
        topo, x = mesh.rectilinear([numpy.linspace(0, 1, n + 1), numpy.linspace(0, 2, n + 2)])
    elif kind == 'tri':
        topo, x = mesh.unitsquare(n, 'triangle')
    elif kind == 'mixed':
        topo, x = mesh.unitsquare(2, 'mixed')
    else:
        t1, x1 = mesh.line(numpy.linspace(0, 1, n + 2), space='X'); t2, x2 = mesh.line(numpy.linspace(0, 2, 3), space='Y')
        smp = t1.sample(scheme, deg) * t2.sample('gauss', 1)
        x = numpy.stack([x1, x2])
        basis = t1.basis('std', degree=1)
        index = t1.f_index + 10 * t2.f_index
        coords = numpy.concatenate([t1.f_coords, t2.f_coords])
        return smp, x, basis, index, coords
    basis = topo.basis('std', degree=1)
    index, coords = topo.f_index, topo.f_coords
    if kind == 'rect-boundary':
        smp = topo.boundary.sample(scheme, deg)
        coords = x * 2.   # boundary local coordinates are 1-D: use another varying (d,) array instead
    else:
        smp = topo.sample(scheme, deg)
    return smp, x, basis, index, coords


def check(case, rec):
    from nutils import function
    with warnings.catch_warnings(), numpy.errstate(all='ignore'):
        warnings.simplefilter('ignore')
        smp, x, basis, index, coords = build_sample(case['sample'])
        leaves = case['leaves']
        nut = []
        args = {}
        for l, cast in zip(leaves, case['cast']):
            if l['t'] == 'const':
                v = genfunc.leaf_value(l)
                nut.append(function.Array.cast(v) if cast else v)
            elif l['t'] == 'arg':
                v = genfunc.leaf_value(l)
                nut.append(function.Argument(l['name'], tuple(l['shape']), dtype={'f': float, 'i': int}[l['kind']]))
                args[l['name']] = v
            elif l['t'] == 'geom': nut.append(x)
            elif l['t'] == 'index': nut.append(index)
            elif l['t'] == 'coords': nut.append(coords)
            else: nut.append(basis)
        if len(basis) != basis_size(case['sample']):
            raise Discard('basis-size-model-mismatch')
        # operand values per point
        L = smp.eval([function.Array.cast(a) for a in nut], arguments=args)
        L = [genfunc.norm64(a) for a in L]
        npts = len(L[0])
        # nutils program
        vals = list(nut)
        for k, nd in enumerate(case['nodes']):
            ops = [vals[c] for c in nd['ch']]
            try:
                r = genfunc.apply(nd['op'], ops, nd['p'])
            except Exception as e:
                msg = f'{type(e).__name__}: {e}'
                if any(frag in str(e) for frag in RESTRICTED) and isinstance(e, (ValueError, TypeError, NotImplementedError)):
                    rec.label('restricted:' + nd['op']); rec.restricted = True
                    return
                raise Violation('construct-raised', f'node {k} {nd["op"]} {nd["p"]} on operand shapes {[numpy.shape(o) for o in ops]}: {msg[:300]} (NumPy evaluates this)', where=f'construct:{nd["op"]}:{type(e).__name__}')
            vals.append(r)
        F = vals[-1]
        if not isinstance(F, function.Array):
            raise Discard('result-is-not-a-function-array')
        try:
            got = numpy.asarray(smp.eval(F, arguments=args))
        except Exception as e:
            raise Violation('eval-raised', f'{_descr(case)}: {type(e).__name__}: {str(e)[:300]}', where='eval:' + case['nodes'][-1]['op'] + ':' + type(e).__name__)
        # per-point reference
        ref = []
        for i in range(npts):
            pv = [a[i] for a in L]
            for nd in case['nodes']:
                if nd['op'] == 'arctan2' and numpy.any((numpy.asarray(pv[nd['ch'][0]]) == 0) & (numpy.asarray(pv[nd['ch'][1]]) <= 0)):
                    # arctan2 is discontinuous in the sign of a zero first operand (+-pi): not a value statement
                    raise Discard('arctan2-on-branch-cut')
                pv.append(genfunc.norm64(genfunc.apply(nd['op'], [pv[c] for c in nd['ch']], nd['p'])))
            ref.append(pv[-1])
        ref = numpy.stack(ref)
        if ref.dtype.kind in 'fc' and not numpy.isfinite(ref).all():
            raise Discard('reference-nonfinite')
        if tuple(F.shape) != ref.shape[1:]:
            raise Violation('announced-shape', f'{_descr(case)}: function array has shape {tuple(F.shape)}, NumPy gives {ref.shape[1:]} per point', where='shape:' + case['nodes'][-1]['op'])
        if got.shape != ref.shape:
            raise Violation('shape', f'{_descr(case)}: evaluated shape {got.shape}, NumPy per point {ref.shape}', where='shape:' + case['nodes'][-1]['op'])
        if genfunc.kind_of(got) != genfunc.kind_of(ref):
            raise Violation('kind', f'{_descr(case)}: evaluated dtype {got.dtype}, NumPy per point {ref.dtype}', where='kind:' + case['nodes'][-1]['op'])
        fk = {bool: 'b', int: 'i', float: 'f', complex: 'c'}.get(F.dtype)
        if fk != genfunc.kind_of(ref):
            raise Violation('announced-kind', f'{_descr(case)}: function array announces dtype {F.dtype}, NumPy gives {ref.dtype}', where='kind:' + case['nodes'][-1]['op'])
        if ref.dtype.kind in 'bi':
            ok = numpy.array_equal(got, ref)
        else:
            ok = numpy.allclose(got, ref, rtol=1e-9, atol=1e-9 * (1 + abs(ref).max()))
        if not ok:
            bad = numpy.argwhere(~numpy.isclose(got, ref, rtol=1e-9, atol=1e-9 * (1 + (abs(ref).max() if ref.size else 0))))[0] if ref.dtype.kind in 'fc' else numpy.argwhere(got != ref)[0]
            raise Violation('value', f'{_descr(case)}: at point {bad[0]} index {bad[1:].tolist()}: nutils {got[tuple(bad)]!r} vs NumPy {ref[tuple(bad)]!r}', where='value:' + '+'.join(sorted({n['op'] for n in case['nodes']}))[:60])
    used = _used(case)
    varying = any(leaves[i]['t'] not in ('const',) for i in used if i < len(leaves))
    rec.nontrivial = len(case['nodes']) >= 2 and varying and bool(case['features'])
    if 'interp-ends' in case['features']: rec.label('interp-with-end-values')
    for ft in ('offdiagonal-reversed-axes', 'einsum-ellipsis', 'python-scalar-operand', 'cross-axis-keyword'):
        if ft in case['features']: rec.label('feature:' + ft)
    for n in case['nodes']: rec.label('op:' + n['op'])
    rec.label('sample:' + case['sample']['kind'])


def _used(case):
    n = len(case['leaves'])
    used = set(); stack = [n + len(case['nodes']) - 1]
    while stack:
        i = stack.pop()
        if i in used: continue
        used.add(i)
        if i >= n: stack.extend(case['nodes'][i - n]['ch'])
    return used


def _descr(case):
    n = len(case['leaves'])
    names = []
    for l in case['leaves']:
        names.append(l['t'] + (':' + l['kind'] + str(l['shape']) if 'kind' in l else ''))
    return ' ; '.join(f'v{n + k}={nd["op"]}({",".join("v%d" % c for c in nd["ch"])}{"," + str(nd["p"]) if nd["p"] else ""})' for k, nd in enumerate(case['nodes'])) + ' | leaves ' + ','.join(f'v{i}={s}' for i, s in enumerate(names)) + f' | sample {case["sample"]["kind"]}'


# ---- rejection cases --------------------------------------------------------------------------------------------

@st.composite
def reject_cases(draw, tier):
    op = draw(st.sampled_from(['add', 'multiply', 'matmul', 'concatenate', 'stack', 'dot', 'einsum', 'reshape', 'broadcast_to', 'take-axis', 'transpose', 'getitem', 'minimum', 'subtract', 'cross', 'choose', 'swapaxes', 'trace', 'transpose-short', 'transpose-repeat', 'interp-length']))
    return dict(op=op, sample=draw(sample_spec()), a=draw(st.sampled_from([[2, 3], [3], [2, 2], [3, 2]])), wrong=draw(st.integers(4, 5)), varying=draw(st.booleans()))


def check_reject(case, rec):
    from nutils import function
    op = case['op']; sa = list(case['a']); w = case['wrong']
    with warnings.catch_warnings():
        warnings.simplefilter('ignore')
        A = function.Argument('A', tuple(sa))
        def arr(shape, name):
            return function.Argument(name, tuple(shape))
        sb = list(sa); sb[-1] = w
        calls = {
            'add': lambda: numpy.add(A, arr(sb, 'B')), 'subtract': lambda: A - arr(sb, 'B'), 'multiply': lambda: A * arr(sb, 'B'), 'minimum': lambda: numpy.minimum(A, arr(sb, 'B')),
            'matmul': lambda: numpy.matmul(A, arr([w, 2], 'B')), 'dot': lambda: numpy.dot(A, arr([w], 'B')),
            'concatenate': lambda: numpy.concatenate([A, arr(sb, 'B')], axis=0) if len(sa) > 1 else numpy.concatenate([A, arr([2, 2], 'B')], axis=0),
            'stack': lambda: numpy.stack([A, arr(sb, 'B')], axis=0), 'einsum': lambda: numpy.einsum('...i,...i->...', A, arr(sb, 'B')),
            'reshape': lambda: numpy.reshape(A, (w, 7)), 'broadcast_to': lambda: numpy.broadcast_to(A, tuple(sa[:-1]) + (w,)), 'take-axis': lambda: numpy.take(A, [0], axis=len(sa) + 1),
            'transpose': lambda: numpy.transpose(A, list(range(len(sa))) + [len(sa)]), 'transpose-short': lambda: numpy.transpose(A, list(range(len(sa)))[1:] if len(sa) > 1 else [0, 0]),
            'interp-length': lambda: numpy.interp(A, [0., 1., 2.][:w - 2], [1., 2., 3., 4.][:w - 1] if w == 5 else [1.]),
            'transpose-repeat': lambda: numpy.transpose(A, [0] * len(sa)) if len(sa) > 1 else numpy.transpose(A, [0, -1]), 'getitem': lambda: A[(0,) * (len(sa) + 1)], 'cross': lambda: numpy.cross(A, arr(sa[:-1] + [7], 'B')),
            'choose': lambda: numpy.choose(function.Argument('I', tuple(sa), dtype=int), [A, arr(sb, 'B')]), 'swapaxes': lambda: numpy.swapaxes(A, 0, len(sa) + 1), 'trace': lambda: numpy.trace(A, axis1=0, axis2=len(sa) + 2),
        }
        # confirm NumPy rejects the same combination on plain arrays
        try:
            r = calls[op]()
        except Exception as e:
            rec.label('rejected:' + op, 'exc:' + type(e).__name__); rec.nontrivial = True
            return
        raise Violation('invalid-accepted', f'{op} with operand shapes {sa} / corrupted axis {w} was built: result shape {getattr(r, "shape", None)}', where='accepted:' + op)


SUBS = [Sub('semantics', cases, check, {'quick': 600, 'thorough': 8000}, weight=4, timeout=120),
        Sub('reject', reject_cases, check_reject, {'quick': 300, 'thorough': 2000}, weight=1)]

TRIGGERS = {}

MANIFEST = dict(
    category='exploration',
    technique='property-based differential testing (Hypothesis): generated compositions of NumPy-API calls on function arrays vs the same calls applied point by point to the operands\' values; shape-corruption rejection tests',
    text='Generated compositions of NumPy-API calls (about 75 call forms incl. indexing and operators) over constants, arguments, geometry, element index, local coordinates and bases are evaluated on interior, boundary and product samples '
         'and compared with the same NumPy calls applied to the operand values at every point: announced and evaluated shape, element kind, values. Shape-incompatible combinations must be rejected when the expression is built. '
         'Held on everything explored; depth <=12, rank <=3.',
    note='Trusted: NumPy on 64-bit kinds as the per-point reference; Hypothesis. Boolean operands in arithmetic/linear algebra and transcendental functions are outside the generated domain (nutils has four kinds; see DESIGN.md).',
)
