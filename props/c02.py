"""C02 — Optimised code generation is a faithful translation of the expression (DESIGN.md §4 C02)."""
import numpy, sys, itertools
from hypothesis import strategies as st
from vlib.core import Sub, Violation, Discard
from vlib import genexpr, evharness

PROPERTY = 'C02'
LEVEL = 'exploration'
BUDGET = {'quick': 60, 'thorough': 600}
SHARDS = {'quick': 8, 'thorough': 16}
RULE = ('cases: G_ev programs with 1-3 outputs arranged in a drawn nested tuple structure (shared subterms between outputs, nested and '
        'sibling loops, loop dependent chunk sizes) x compile configurations (_simplify, _optimize, cache_const_intermediates, stats, '
        'maxprocs); every configuration is compiled with evaluable.compile, called (twice when caching) and compared with the independent '
        'numpy interpreter: tuple structure, dtype, shape, values. The generated script is captured and classified. non-trivial: the '
        'script contains a for loop or an in-place accumulation (numpy.add.at / out= / +=) and the program has >=4 nodes; distinct = program hash')
ASSUMPTIONS = ['numpy reference interpreter is the meaning of the program', 'programs on which simplification does not terminate within the C01 step bound are skipped here (reported by C01)',
               'maxprocs=2 runs use fork; covered on a fraction of looping programs only']

STRUCTS = {1: ['a', '(a,)', '((a,),)'], 2: ['(a,b)', '(a,(b,))', '[a,b]'], 3: ['(a,b,c)', '(a,(b,c))', '((a,b),c)']}


@st.composite
def cases(draw, tier):
    big = tier == 'thorough' and draw(st.booleans())
    prog = draw(genexpr.programs(maxnodes=40 if big else 14, maxdepth=8 if big else 5, maxloops=4 if big else 3, nouts=3))
    k = len(prog['outs'])
    struct = draw(st.sampled_from(STRUCTS[k]))
    cfgs = []
    base = dict(cache=draw(st.booleans()), stats=draw(st.sampled_from([None, None, 'log'])))
    if tier == 'quick':
        for s, o in itertools.product([False, True], repeat=2):
            cfgs.append(dict(simplify=s, optimize=o, maxprocs=1, **base))
        cfgs.append(dict(simplify=draw(st.booleans()), optimize=draw(st.booleans()), cache=not base['cache'], stats=draw(st.sampled_from([None, 'log'])), maxprocs=1))
    else:
        for s, o, c, t in itertools.product([False, True], [False, True], [False, True], [None, 'log']):
            cfgs.append(dict(simplify=s, optimize=o, cache=c, stats=t, maxprocs=1))
    if any(n['op'] in ('loopsum', 'loopcat') for n in prog['nodes']) and draw(st.integers(0, 19)) < (2 if tier == "quick" else 8):
        cfgs.append(dict(simplify=draw(st.booleans()), optimize=draw(st.booleans()), cache=draw(st.booleans()), stats=None, maxprocs=2))
    return dict(prog=prog, struct=struct, cfgs=cfgs)


def nest(struct, items):
    env = dict(zip('abc', items))
    return eval(struct, {}, env)


def flatten(x):
    if isinstance(x, (tuple, list)):
        for y in x:
            yield from flatten(y)
    else:
        yield x


def same_structure(a, b):
    if isinstance(b, (tuple, list)):
        return isinstance(a, tuple) and len(a) == len(b) and all(same_structure(x, y) for x, y in zip(a, b))
    return not isinstance(a, (tuple, list))


def cfgname(c):
    return f's{int(c["simplify"])}o{int(c["optimize"])}c{int(c["cache"])}t{int(c["stats"] is not None)}p{c["maxprocs"]}'


def check(case, rec):
    from nutils import evaluable, _util, parallel
    prog = case['prog']
    ref, want, args, tols = evharness.reference(prog)
    try:
        outs, built = genexpr.build(prog)
    except Exception as e:
        raise Violation('construct-raised', f'{type(e).__name__}: {e}', where='build:' + type(e).__name__)
    nn = len(prog['nodes'])
    sys.setrecursionlimit(3000)
    if any(c['simplify'] or c['optimize'] for c in case['cfgs']):
        evharness.clear_cache(*outs)
        with evharness.RewriteTrace(bound=4000 + 1000 * nn, record=False):
            try:
                for o in outs:
                    o.simplified
            except evharness.StepBound:
                raise Discard('upstream-C01-nontermination')
            except RecursionError:
                raise Discard('upstream-C01-nontermination')
            except Exception as e:
                if 'caught in a loop' in str(e):
                    raise Discard('upstream-C01-nontermination')
                raise Violation('simplify-raised', f'{type(e).__name__}: {str(e)[:300]}', where=type(e).__name__)
    target = nest(case['struct'], outs)
    scripts = []
    orig_function = _util.function

    def capture(script, globals):
        scripts.append(script)
        return orig_function(script, globals)

    feats = set()
    for cfg in case['cfgs']:
        name = cfgname(cfg)
        _util.function = capture
        try:
            try:
                with parallel.maxprocs(cfg['maxprocs']):
                    f = evaluable.compile(target, stats=cfg['stats'] or False, cache_const_intermediates=cfg['cache'], _simplify=cfg['simplify'], _optimize=cfg['optimize'])
            except Exception as e:
                raise Violation('compile-raised', f'[{name}] {type(e).__name__}: {str(e)[:300]}', where=f's{int(cfg["simplify"])}o{int(cfg["optimize"])}:' + type(e).__name__ + ':' + _frame(e))
        finally:
            _util.function = orig_function
        script = scripts[-1] if scripts else ''
        ncalls = 2 if cfg['cache'] else 1
        for call in range(ncalls):
            try:
                with parallel.maxprocs(cfg['maxprocs']):
                    got = f({k: v.copy() for k, v in args.items()})
            except Exception as e:
                raise Violation('eval-raised', f'[{name} call {call}] {type(e).__name__}: {str(e)[:300]}\n{script[:3000]}',
                                where=f's{int(cfg["simplify"])}o{int(cfg["optimize"])}:' + type(e).__name__)
            if not same_structure(got, target):
                raise Violation('structure', f'[{name}] result structure {_shape_of(got)} for request {case["struct"]}', where='structure')
            for k, (g, w, tol) in enumerate(zip(flatten(got), want, tols)):
                g = numpy.asarray(g)
                bad = evharness.close(g, w, tol)
                if bad is None and g.dtype != w.dtype:
                    bad = f'dtype {g.dtype} != {w.dtype}'
                if bad:
                    raise Violation('value-mismatch', f'[{name} call {call}] output {k}: {bad}\n{script[:3000]}',
                                    where=f's{int(cfg["simplify"])}o{int(cfg["optimize"])}' + ('p2' if cfg['maxprocs'] > 1 else '') + ('rerun' if call else ''))
        for key, pat in (('for-loop', '\n    for '), ('add.at', 'numpy.add.at'), ('out=', 'out='), ('iadd', ' += '), ('einsum', 'einsum'), ('ctxrange', 'ctxrange'),
                         ('nested-for', '\n        for '), ('global-cache', 'global first_run'), ('Assemble', 'Assemble'), ('take-slice', '_TakeSlice')):
            if pat in script:
                feats.add(key)
        rec.label('cfg:' + name)
    rec.label(*('script:' + k for k in feats))
    rec.label('struct:' + case['struct'])
    rec.nontrivial = bool(feats & {'for-loop', 'add.at', 'out=', 'iadd'}) and nn >= 4
    if len(prog['outs']) > 1:
        rec.label('multi-output')


def _shape_of(x):
    if isinstance(x, (tuple, list)):
        return type(x).__name__ + '(' + ','.join(_shape_of(y) for y in x) + ')'
    return 'array'


def _frame(e):
    import traceback
    for fr in reversed(traceback.extract_tb(e.__traceback__)):
        if 'nutils' in fr.filename:
            return fr.name
    return '?'


SUBS = [Sub('compile', cases, check, {'quick': 1500, 'thorough': 12000}, timeout=25, deterministic=False)]   # maxprocs=2 configurations depend on scheduling; the oracle is the independent reference

def _upstream_c01(case, v):
    prog = case.get('prog', case)
    return genexpr.known_loop(prog)


TRIGGERS = {'upstream-C01-inflate-diagonalize': _upstream_c01}

MANIFEST = dict(
    category='exploration',
    technique='property-based differential testing (Hypothesis): generated expression DAG tuples x compile configurations; generated Python function vs an independent numpy interpreter',
    text='Generated programs with 1-3 outputs in nested tuple structures are compiled under every (_simplify,_optimize) combination plus drawn cache/stats/maxprocs settings and '
         'the results (structure, dtype, shape, values; second call when caching) are compared with the independent numpy interpreter. Held on everything explored; bounded sizes.',
    note='Trusted: numpy reference interpreter, Hypothesis. Programs whose simplification does not terminate are left to C01. maxprocs>1 is sampled on a fraction of looping programs.',
)
