"""C19 — Expression strings mean their index-notation reading (DESIGN.md §4 C19)."""
import numpy, warnings, itertools, string, hashlib
from hypothesis import strategies as st
from vlib.core import Sub, Violation, Discard

PROPERTY = 'C19'
LEVEL = 'exploration'
BUDGET = {'quick': 45, 'thorough': 450}
SHARDS = {'quick': 8, 'thorough': 16}
RULE = ('cases: syntax trees generated from the documented grammar of expression_v2 (variables with indices, traces, numerals as indices, products with summed pairs, fractions, '
        'powers ^n / ^-n / ^(scalar expr), unary minus, add/sub with permuted index order, compounds, function calls incl. generated axes, {mean}/[jump] on constants) and of the v1 '
        'core (products, traces, numerals, fractions, powers, ?arguments, δ, stacks <a, b>_i, eval order, gradients of polynomial fields on a mesh), with index bookkeeping by the '
        'generator; the tree is rendered to a string with legal whitespace variation and evaluated through Namespace (\'expr\' @ ns, ns.x_ij = \'expr\'); oracle: numpy einsum-style '
        'evaluation of the tree. Rule-targeted corruptions of valid strings (third index occurrence, length mismatch, differing index sets, unknown name, misplaced number, missing '
        'space around +/-, unbalanced/mismatched brackets, whitespace around ^, free index in denominator/exponent, repeated / or ^, variable called, wrong index count, numeral out of '
        'range) and four corruptions generated on the tree (third use of a summed index in a term, numerator index summed again in the denominator, axis length mismatch, extra free index in one term) must raise ExpressionSyntaxError in version 2 and, where the same rule is documented there, in version 1; every generated tree without generating functions is also evaluated through the version 1 namespace. non-trivial: >=1 summed index and depth >=2; every corruption case; distinct = rendered string')
ASSUMPTIONS = ['numpy evaluation of the generated tree is the intended reading (known by construction)', 'random single-character edits are not asserted (no independent recogniser built)']

LETTERS = 'ijklmnpqrs'
LEN = dict(i=2, j=3, k=2, l=3, m=2, n=3, p=2, q=3, r=2, s=3)


def val(name, shape):
    h = int(hashlib.sha1(name.encode()).hexdigest()[:8], 16)
    n = int(numpy.prod(shape)) if shape else 1
    a = (((numpy.arange(n) * 7 + h) % 11) - 3) / 4. + .125
    return a.reshape(shape)


class G:
    def __init__(self, draw, maxdepth, fields=None):
        self.draw = draw
        self.fields = fields       # None | 'interior' | 'boundary' | 'interfaces'
        self.vars = {}
        self.used = set()
        self.maxdepth = maxdepth
        self.nsummed = 0

    def choice(self, seq): return self.draw(st.sampled_from(list(seq)))
    def integer(self, a, b): return self.draw(st.integers(a, b))
    def boolean(self, p=.5): return self.draw(st.integers(0, 99)) < int(100 * p)

    def fresh(self):
        for c in LETTERS:
            if c not in self.used:
                self.used.add(c); return c
        return None

    def var(self, idx):
        """idx: list of letters / digit strings; returns a var node with a suitably shaped namespace variable"""
        if self.fields and len(idx) <= 2 and all((LEN[x] == 2) if x.isalpha() else x in '01' for x in idx) and self.boolean(.65):
            names = {0: ['fa', 'fb', 'ha'] + (['dV'] if self.fields == 'interior' else ['dS'] if self.fields == 'boundary' else []), 1: ['ga', 'gb'] + (['n'] if self.fields == 'boundary' else []), 2: ['ma']}[len(idx)]
            return dict(t='var', name=self.choice(names), idx=list(idx))
        shape = []
        for x in idx:
            shape.append(LEN[x] if x.isalpha() else int(x) + self.integer(1, 2))
        key = 'v' + ''.join(chr(97 + s) for s in shape) + self.choice('xyz')
        self.vars[key] = shape
        return dict(t='var', name=key, idx=list(idx))

    def expr(self, free, depth):
        nterms = self.choice([1, 1, 2, 2, 3]) if depth > 0 else self.choice([1, 1, 2])
        terms = []
        for k in range(nterms):
            order = list(self.draw(st.permutations(free))) if k else list(free)
            terms.append(['+' if k == 0 or self.boolean() else '-', self.fraction(order, depth)])
        return dict(t='expr', neg=self.boolean(.2), terms=terms)

    def fraction(self, free, depth):
        num = self.term(free, depth)
        if self.boolean(.2):
            return dict(t='frac', n=num, d=self.term([], depth - 1, nonzero=True))
        return num

    def term(self, free, depth, nonzero=False):
        nitems = self.choice([1, 1, 2, 2, 3])
        slots = [[] for _ in range(nitems)]
        for f in free:
            slots[self.integer(0, nitems - 1)].append(f)
        nsum = self.choice([0, 0, 1, 1, 2]) if nitems > 1 or self.boolean(.3) else 0
        for _ in range(nsum):
            c = self.fresh()
            if c is None: break
            a, b = self.integer(0, nitems - 1), self.integer(0, nitems - 1)
            slots[a].append(c); slots[b].append(c)
            self.nsummed += 1
        items = []
        for s in slots:
            s = list(self.draw(st.permutations(s))) if s else []
            items.append(self.item(s, depth))
        number = self.choice(['2', '3', '0.5', '1.25', '.5']) if self.boolean(.25) else None
        return dict(t='term', num=number, items=items)

    def item(self, idx, depth):
        repeated = len(set(idx)) != len(idx)
        kinds = ['var', 'var']
        if not repeated and depth > 0:
            kinds += ['scope', 'call', 'pow', 'powvar', 'gen']
        if self.fields and not repeated and depth > 0:
            if idx and LEN[idx[-1]] == 2: kinds += ['grad', 'grad']
            if not idx: kinds += ['div']
        kind = self.choice(kinds)
        if kind == 'grad':
            return dict(t='call', f='sg' if self.fields == 'boundary' and self.boolean(.7) else '∇', gen=[idx[-1]], e=self.expr(idx[:-1], depth - 1))
        if kind == 'div':
            c = next((x for x in LETTERS if x not in self.used and LEN[x] == 2), None)
            if c is not None:
                self.used.add(c); self.nsummed += 1
                return dict(t='call', f='∇', gen=[c], e=self.expr([c], depth - 1))
            kind = 'var'
        if kind == 'var' or repeated:
            full = list(idx)
            if self.boolean(.25):
                full.insert(self.integer(0, len(full)), str(self.integer(0, 1)))
            return self.var(full)
        if kind == 'scope':
            return dict(t='scope', kind=self.choice(['(', '(', '(', '{'] if not self.fields else ['(', '[', '{', '['] if self.fields == 'interfaces' else ['(']), e=self.expr(idx, depth - 1))
        if kind == 'call':
            return dict(t='call', f=self.choice(['sin', 'cos', 'exp', 'abs', 'sqr', 'tanh']), gen=[], e=self.expr(idx, depth - 1))
        if kind == 'gen' and idx:
            # last index is generated by the function: f_k(arg) where arg has the other indices
            return dict(t='call', f='twice' if LEN[idx[-1]] == 2 else 'thrice', gen=[idx[-1]], e=self.expr(idx[:-1], depth - 1))
        if kind == 'pow':
            base = self.var(idx) if self.boolean() else dict(t='scope', kind='(', e=self.expr(idx, depth - 1))
            return dict(t='pow', base=base, exp=self.choice(['2', '3', '-1', '-2', '0', '1']))
        base = dict(t='call', f='abs', gen=[], e=self.expr(idx, depth - 1))
        return dict(t='pow', base=base, exp=dict(t='scope', kind='(', e=dict(t='expr', neg=False, terms=[['+', dict(t='frac', n=dict(t='term', num='1', items=[]), d=dict(t='term', num='2', items=[]))]])))


@st.composite
def valid_cases(draw, tier):
    g = G(draw, 2 if tier == 'quick' else 3)
    nfree = draw(st.sampled_from([0, 1, 1, 2, 2, 3]))
    free = []
    for _ in range(nfree):
        free.append(g.fresh())
    tree = g.expr(free, g.maxdepth)
    return dict(tree=tree, vars=g.vars, free=free, ws=draw(st.integers(0, 7)), assign_order=list(draw(st.permutations(free))))


def render(n, ws=0, v1=False):
    sp = ' ' if not ws & 1 else '  '
    t = n['t']
    if v1 and t == 'call' and n['f'] in ('∇', 'sg'):
        # version 1 spells the (surface) gradient of a compound expression with a trailing index: (expr)_,k and (expr)_;k
        return '(' + render(n['e'], ws, v1) + ')_' + (',' if n['f'] == '∇' else ';') + ''.join(n['gen'])
    if t == 'var':
        return n['name'] + ('_' + ''.join(n['idx']) if n['idx'] else '')
    if t == 'term':
        parts = ([n['num']] if n['num'] else []) + [render(i, ws, v1) for i in n['items']]
        return sp.join(parts)
    if t == 'frac':
        return render(n['n'], ws, v1) + ' / ' + render(n['d'], ws, v1)
    if t == 'expr':
        s = ''
        for k, (sign, term) in enumerate(n['terms']):
            if k == 0:
                s += ('-' if n['neg'] else '') + render(term, ws, v1)
            else:
                s += ' ' + sign + ' ' + render(term, ws, v1)
        return s
    if t == 'scope':
        close = {'(': ')', '{': '}', '[': ']'}[n['kind']]
        pad = ' ' if ws & 2 else ''
        return n['kind'] + pad + render(n['e'], ws, v1) + pad + close
    if t == 'call':
        return n['f'] + ('_' + ''.join(n['gen']) if n['gen'] else '') + '(' + render(n['e'], ws, v1) + ')'
    if t == 'pow':
        e = n['exp'] if isinstance(n['exp'], str) else render(n['exp'], ws, v1)
        return render(n['base'], ws, v1) + '^' + e
    raise NotImplementedError(t)


FUNCS = dict(sin=numpy.sin, cos=numpy.cos, exp=numpy.exp, abs=numpy.abs, tanh=numpy.tanh, sqr=lambda u: u ** 2,
             twice=lambda u: numpy.stack([u, 2 * u], axis=-1), thrice=lambda u: numpy.stack([u, 2 * u, u * u], axis=-1))


def trace_dups(a, idx):
    idx = list(idx)
    j = 0
    while j < len(idx):
        i = idx.index(idx[j])
        if i < j:
            a = numpy.trace(a, axis1=i, axis2=j)
            a = numpy.moveaxis(a, -1, -1) if False else a
            # numpy.trace removes both axes; remaining axes keep their order
            idx = idx[:i] + idx[i + 1:j] + idx[j + 1:]
            j -= 1
        else:
            j += 1
    return a, idx


FD_STENCIL = list(zip(numpy.array([-1, 9, -45, 45, -9, 1]) / 60., [-3, -2, -1, 1, 2, 3]))

FIELDS = dict(
    fa=lambda x: 1 + x[0] * x[1] - .5 * x[1] ** 2, fb=lambda x: x[0] ** 2 + .25 * x[1] + .5,
    ga=lambda x: numpy.stack([x[0] * x[1], x[0] - x[1] ** 2]), gb=lambda x: numpy.stack([1 + x[1], x[0] ** 2 + 0 * x[1]]),
    ma=lambda x: numpy.stack([numpy.stack([x[0], x[1]]), numpy.stack([x[0] * x[1], 1. + 0 * x[0]])]))


def evaluate(n, vars, ctx=None):
    """returns (numpy array, list of index letters); ctx (fields mode): dict(x=point, h=(value of the discontinuous field on this side, on the
    other side), n=normal, dV=, dS=, fderr=[...]) for one sample point"""
    t = n['t']
    if ctx is not None:
        if t == 'var' and n['name'] in ('fa', 'fb', 'ga', 'gb', 'ma', 'ha', 'n', 'dV', 'dS'):
            nm = n['name']
            a = numpy.asarray(FIELDS[nm](ctx['x']) if nm in FIELDS else ctx['h'][0] if nm == 'ha' else ctx[nm], dtype=float)
            idx = []; ax = 0
            for x in n['idx']:
                if x.isdigit(): a = numpy.take(a, int(x), axis=ax)
                else: idx.append(x); ax += 1
            return trace_dups(a, idx)
        if t == 'call' and n['f'] in ('∇', 'sg'):
            def fd(h):
                comps = []
                for k in range(2):
                    acc = 0
                    for c, m in FD_STENCIL:
                        x2 = numpy.array(ctx['x'], dtype=float); x2[k] += m * h
                        a, ai = evaluate(n['e'], vars, dict(ctx, x=x2))
                        acc = acc + c * a
                    comps.append(acc / h)
                return numpy.stack(comps, axis=-1), ai
            g1, ai = fd(1e-2); g2, _ = fd(5e-3)
            # one-sided slopes: a kink (sqrt(abs(.)) at a zero of its argument) makes the gradient undefined although the symmetric differences agree
            f0, _ = evaluate(n['e'], vars, ctx)
            for k in range(2):
                xa = numpy.array(ctx['x'], dtype=float); xb = xa.copy(); xa[k] += 1e-4; xb[k] -= 1e-4
                fa_, _ = evaluate(n['e'], vars, dict(ctx, x=xa)); fb_, _ = evaluate(n['e'], vars, dict(ctx, x=xb))
                one_sided = abs((fa_ - f0) - (f0 - fb_)) / 1e-4
                if numpy.any(one_sided > 1e-2 * (1 + abs(g2[..., k]))):
                    ctx['fderr'].append(1.)
            g2 = numpy.where(abs(g2) < 1e-9, 0., g2)     # the gradient of something that does not depend on x is exactly zero, not rounding noise (matters under sqrt/abs)
            ctx['fderr'].append(float(abs(g1 - g2).max() / (1 + abs(g1).max())) if g1.size else 0.)
            if n['f'] == 'sg':      # surface gradient: the part of the gradient tangential to the boundary
                g2 = g2 - (g2 @ ctx['n'])[..., None] * ctx['n']
            return trace_dups(g2, ai + list(n['gen']))
        if t == 'scope' and n['kind'] in '[{':
            a, ai = evaluate(n['e'], vars, ctx)
            b, bi = evaluate(n['e'], vars, dict(ctx, h=ctx['h'][::-1]))
            return (b - a if n['kind'] == '[' else .5 * (a + b)), ai
        if t in ('term', 'frac', 'expr', 'scope', 'call', 'pow'):
            return _evaluate_composite(n, vars, ctx)
    if t == 'var':
        a = val(n['name'], vars[n['name']])
        idx = []
        ax = 0
        for x in n['idx']:
            if x.isdigit():
                a = numpy.take(a, int(x), axis=ax)
            else:
                idx.append(x); ax += 1
        return trace_dups(a, idx)
    return _evaluate_composite(n, vars, None)


def _evaluate_composite(n, vars, ctx):
    t = n['t']
    ev = lambda m: evaluate(m, vars, ctx)
    if t == 'term':
        a = numpy.array(float(n['num'])) if n['num'] else numpy.array(1.)
        idx = []
        for it in n['items']:
            b, bi = ev(it)
            a = numpy.multiply.outer(a, b); idx = idx + bi
        return trace_dups(a, idx)
    if t == 'frac':
        a, ai = ev(n['n']); b, bi = ev(n['d'])
        assert not bi
        return a / b, ai
    if t == 'expr':
        a, ai = ev(n['terms'][0][1])
        if n['neg']: a = -a
        for sign, term in n['terms'][1:]:
            b, bi = ev(term)
            b = numpy.transpose(b, [bi.index(x) for x in ai])
            a = a + b if sign == '+' else a - b
        return a, ai
    if t == 'scope':
        return ev(n['e'])     # mean of a constant is the constant
    if t == 'call':
        a, ai = ev(n['e'])
        if n['f'] in ('sin', 'cos') and a.size and abs(a).max() > 1e5:
            raise Discard('ill-conditioned-trigonometric-argument')      # sin(1e27) is rounding noise in any implementation
        return trace_dups(FUNCS[n['f']](a), ai + list(n['gen']))
    if t == 'pow':
        a, ai = ev(n['base'])
        e = float(n['exp']) if isinstance(n['exp'], str) else float(ev(n['exp'])[0])
        with numpy.errstate(all='ignore'):
            return numpy.power(a, e), ai
    raise NotImplementedError(t)


def namespace(vars):
    from nutils.expression_v2 import Namespace
    ns = Namespace()
    for name, shape in vars.items():
        setattr(ns, name, val(name, shape))
    ns.sqr = lambda u: u ** 2
    ns.twice = lambda u: numpy.stack([u, 2 * u], axis=-1)
    ns.thrice = lambda u: numpy.stack([u, 2 * u, u * u], axis=-1)
    return ns


def _eval(array):
    from nutils import function, mesh
    a = function.Array.cast(array)
    try:
        return numpy.asarray(function.eval(a))
    except Exception:
        # expressions containing mean need an interface sample
        topo, geom = mesh.line(3)
        smp = topo.interfaces.sample('gauss', 1)
        return numpy.asarray(smp.eval(a))[0]


def check_valid(case, rec):
    from nutils import expression_v2
    tree = case['tree']
    s = render(tree, case['ws'])
    with numpy.errstate(all='ignore'):
        want, idx = evaluate(tree, case['vars'])
    if not numpy.isfinite(want).all() or (want.size and abs(want).max() > 1e12):
        raise Discard('reference-nonfinite')
    order = sorted(idx)
    want_sorted = numpy.transpose(want, [idx.index(x) for x in order]) if idx else want
    ns = namespace(case['vars'])
    with warnings.catch_warnings():
        warnings.simplefilter('ignore')
        try:
            arr = s @ ns
        except expression_v2.ExpressionSyntaxError as e:
            raise Violation('valid-rejected', f'{s!r}: {str(e).splitlines()[0]}', where='valid-rejected:' + str(e).split('.')[0][:40])
        except Exception as e:
            raise Violation('valid-raised', f'{s!r}: {type(e).__name__}: {str(e)[:200]}', where='valid-raised:' + type(e).__name__)
        got = _eval(arr)
        if got.shape != want_sorted.shape or not numpy.allclose(got, want_sorted, rtol=1e-10, atol=1e-12):
            raise Violation('wrong-value', f'{s!r} @ ns: {got.tolist()} != reading {want_sorted.tolist()} (indices {order})', where='value:at')
        # assignment with explicit index order
        ao = case['assign_order']
        if sorted(ao) == order:
            try:
                setattr(ns, 'res' + ('_' + ''.join(ao) if ao else ''), s)
            except Exception as e:
                raise Violation('valid-raised', f'ns.res_{"".join(ao)} = {s!r}: {type(e).__name__}: {str(e)[:200]}', where='assign:' + type(e).__name__)
            got2 = _eval(ns.res)
            want2 = numpy.transpose(want, [idx.index(x) for x in ao]) if idx else want
            if got2.shape != want2.shape or not numpy.allclose(got2, want2, rtol=1e-10, atol=1e-12):
                raise Violation('wrong-value', f'ns.res_{"".join(ao)} = {s!r}: {got2.tolist()} != {want2.tolist()}', where='value:assign')
        # the same string through expression version 1 (explicit index order), where the construct exists there
        if not any(n['t'] == 'call' and n['gen'] for n in _walk(tree)):
            check_v1_string(s, case['vars'], ao if sorted(ao) == order else order, want, idx, bool(case['ws'] & 4))
            rec.label('v1-generated')
    depth = _depth(tree)
    rec.nontrivial = _nsummed(tree) >= 1 and depth >= 2
    rec.key = hashlib.sha1(s.encode()).hexdigest()[:16]
    for k in _kinds(tree): rec.label('node:' + k)
    rec.label('depth:%d' % depth)


def namespace_v1(vars):
    from nutils import expression_v1
    ns = expression_v1.Namespace(functions=dict(sqr=lambda u: u ** 2))
    for name, shape in vars.items():
        setattr(ns, name, val(name, shape))
    return ns


def check_v1_string(s, vars, ao, want, idx, assign):
    from nutils import expression_v1
    ns = namespace_v1(vars)
    want1 = numpy.transpose(want, [idx.index(x) for x in ao]) if idx else want
    how = f'ns.res_{"".join(ao)} = {s!r}' if assign else f'ns.eval_{"".join(ao)}({s!r})'
    try:
        if assign:
            setattr(ns, 'res' + ('_' + ''.join(ao) if ao else ''), s)
            arr = ns.res
        else:
            arr = getattr(ns, 'eval_' + ''.join(ao))(s)
    except expression_v1.ExpressionSyntaxError as e:
        raise Violation('valid-rejected', f'v1 {how}: {str(e).splitlines()[0]}', where='v1-valid-rejected:' + str(e).split('.')[0][:40])
    except Exception as e:
        raise Violation('valid-raised', f'v1 {how}: {type(e).__name__}: {str(e)[:200]}', where='v1-valid-raised:' + type(e).__name__)
    got = _eval(arr)
    if got.shape != want1.shape or not numpy.allclose(got, want1, rtol=1e-10, atol=1e-12):
        raise Violation('wrong-value', f'v1 {how}: {got.tolist()} != reading {want1.tolist()}', where='value:v1')


def _walk(n):
    yield n
    t = n['t']
    if t == 'term':
        for i in n['items']: yield from _walk(i)
    elif t == 'frac':
        yield from _walk(n['n']); yield from _walk(n['d'])
    elif t == 'expr':
        for _, term in n['terms']: yield from _walk(term)
    elif t in ('scope', 'call'):
        yield from _walk(n['e'])
    elif t == 'pow':
        yield from _walk(n['base'])
        if not isinstance(n['exp'], str): yield from _walk(n['exp'])


def _kinds(tree):
    out = set()
    for n in _walk(tree):
        out.add(n['t'] + (':' + n['kind'] if n['t'] == 'scope' else '') + (':gen' if n['t'] == 'call' and n['gen'] else ''))
        if n['t'] == 'var' and any(x.isdigit() for x in n['idx']): out.add('numeral-index')
        if n['t'] == 'var' and len(set(n['idx'])) != len(n['idx']): out.add('trace')
        if n['t'] == 'expr' and n['neg']: out.add('unary-minus')
    return out


def _depth(n):
    t = n['t']
    if t == 'var': return 0
    if t == 'term': return max([_depth(i) for i in n['items']] + [0])
    if t == 'frac': return max(_depth(n['n']), _depth(n['d']))
    if t == 'expr': return max(_depth(term) for _, term in n['terms'])
    if t in ('scope', 'call'): return 1 + _depth(n['e'])
    if t == 'pow': return 1 + _depth(n['base'])
    return 0


def _nsummed(tree):
    c = 0
    for n in _walk(tree):
        if n['t'] == 'term':
            flat = [x for i in n['items'] for x in _free_idx(i)]
            c += len(flat) - len(set(flat))
        if n['t'] == 'var':
            letters = [x for x in n['idx'] if x.isalpha()]
            c += len(letters) - len(set(letters))
    return c


def _free_idx(n):
    t = n['t']
    if t == 'var':
        l = [x for x in n['idx'] if x.isalpha()]
        return [x for x in l if l.count(x) == 1]
    if t == 'term':
        flat = [x for i in n['items'] for x in _free_idx(i)]
        return [x for x in flat if flat.count(x) == 1]
    if t == 'frac': return _free_idx(n['n'])
    if t == 'expr': return _free_idx(n['terms'][0][1])
    if t == 'scope': return _free_idx(n['e'])
    if t == 'call':
        l = _free_idx(n['e']) + list(n['gen'])
        return [x for x in l if l.count(x) == 1]
    if t == 'pow': return _free_idx(n['base'])
    return []


# ---- corruptions ---------------------------------------------------------------------------------------

CORRUPTIONS = ['third-index', 'length-mismatch', 'index-sets-differ', 'unknown-name', 'number-not-first', 'no-space-plus', 'no-space-minus', 'unbalanced', 'mismatched-bracket',
               'space-before-caret', 'space-after-caret', 'index-in-denominator', 'index-in-exponent', 'repeated-fraction', 'repeated-power', 'variable-called', 'function-as-variable',
               'too-many-indices', 'too-few-indices', 'numeral-out-of-range', 'trailing-operator', 'negated-second-term', 'symbols-after-scope', 'empty', 'uppercase-index', 'trace-length-mismatch',
               'gen-third-in-term', 'gen-third-in-term', 'gen-third-in-term', 'gen-fraction-reuse', 'gen-fraction-reuse', 'gen-fraction-reuse', 'gen-length-mismatch', 'gen-length-mismatch', 'gen-index-sets-differ', 'gen-index-sets-differ']


@st.composite
def corrupt_cases(draw, tier):
    base = draw(valid_cases(tier))
    return dict(base=base, c=draw(st.sampled_from(CORRUPTIONS)), pick=draw(st.integers(0, 50)))


def corrupt(case):
    """returns (string, extra vars) that violates exactly one documented rule, or None"""
    base = case['base']; c = case['c']; pick = case['pick']
    s = render(base['tree'], base['ws'])
    vars = dict(base['vars'])
    free = base['free']
    vars['wa'] = [2]; vars['wb'] = [3]; vars['ws'] = []; vars['wm'] = [2, 3]
    if c == 'third-index':
        return f'wa_i wa_i wa_i', vars
    if c == 'length-mismatch':
        return f'wm_ij + wm_ji', vars
    if c == 'index-sets-differ':
        return ('(' + s + ') + wa_i') if 'i' not in free and not free else (s + ' + ws' if free else None), vars
    if c == 'unknown-name':
        return s + ' + ' + 'zz' + ('_' + ''.join(free) if free else ''), vars
    if c == 'number-not-first':
        return 'ws 2' if pick % 2 else '2 2 ws', vars
    if c == 'no-space-plus':
        return 'ws+ws' if pick % 2 else 'ws +ws', vars
    if c == 'no-space-minus':
        return 'ws -ws' if pick % 2 else 'ws + -ws', vars
    if c == 'unbalanced':
        return ('(' + s) if pick % 2 else ('sin(' + 'ws'), vars
    if c == 'mismatched-bracket':
        return '(ws]' if pick % 2 else '{ws)', vars
    if c == 'space-before-caret':
        return 'ws ^2', vars
    if c == 'space-after-caret':
        return 'ws^ 2', vars
    if c == 'index-in-denominator':
        return '2 / wa_i', vars
    if c == 'index-in-exponent':
        return 'ws^(wa_i)', vars
    if c == 'repeated-fraction':
        return 'ws / ws / ws', vars
    if c == 'repeated-power':
        return 'ws^2^2', vars
    if c == 'variable-called':
        return 'wa_i(1 / 2)' if pick % 2 else 'ws(2)', vars
    if c == 'function-as-variable':
        return 'sin + ws' if pick % 2 else 'sin', vars
    if c == 'too-many-indices':
        return 'wa_ij', vars
    if c == 'too-few-indices':
        return 'wm_i', vars
    if c == 'numeral-out-of-range':
        return 'wa_2' if pick % 2 else 'wm_i3', vars
    if c == 'trailing-operator':
        return ('ws + ' if pick % 3 == 0 else 'ws / ' if pick % 3 == 1 else 'ws^'), vars
    if c == 'negated-second-term':
        return 'ws + -ws', vars
    if c == 'symbols-after-scope':
        return '(ws)ws', vars
    if c == 'empty':
        return ('' if pick % 2 else '()'), vars
    if c == 'uppercase-index':
        return 'wa_I', vars
    if c == 'trace-length-mismatch':
        return 'wm_ii', vars
    if c.startswith('gen-'):
        return corrupt_tree(case)
    return None


def _letters(n):
    out = []
    for m in _walk(n):
        if m['t'] == 'var': out += [x for x in m['idx'] if x.isalpha()]
        elif m['t'] == 'call': out += list(m['gen'])
    return out


def _direct_summed(T):
    """letters summed at the level of term T itself: between the free indices of two items, or traced within a variable item"""
    flat = [x for i in T['items'] for x in _free_idx(i)]
    out = {x for x in flat if flat.count(x) >= 2}
    for i in T['items']:
        if i['t'] == 'var':
            l = [x for x in i['idx'] if x.isalpha()]
            out |= {x for x in l if l.count(x) >= 2}
    return out


def corrupt_tree(case):
    """tree-level corruption of a generated valid expression; returns (string, vars, v1_asserted) or None"""
    import copy
    base = case['base']; c = case['c']; pick = case['pick']
    tree = copy.deepcopy(base['tree'])
    vars = dict(base['vars'])
    def newvar(idx, bump=None):
        shape = [LEN[x] + (1 if k == bump else 0) for k, x in enumerate(idx)]
        name = 'w' + ''.join(chr(97 + n) for n in shape) + 'q'
        vars[name] = shape
        return dict(t='var', name=name, idx=list(idx))
    terms = [n for n in _walk(tree) if n['t'] == 'term']
    v1ok = not any(n['t'] == 'call' and n['gen'] for n in _walk(tree))
    if c == 'gen-third-in-term':
        cand = []
        for T in terms:
            free = set(_free_idx(T)); direct = _direct_summed(T)
            for x in sorted(set(_letters(T)) - free):
                cand.append((T, x, x in direct))
        if not cand: return None
        T, x, direct = cand[pick % len(cand)]
        T['items'].insert((pick // 7) % (len(T['items']) + 1), newvar([x]))
        return render(tree, base['ws']), vars, v1ok and direct
    if c == 'gen-fraction-reuse':
        # numerator index (free or summed in the numerator) used again, summed, in the denominator
        slots = []       # (container, key, term)
        for n in _walk(tree):
            if n['t'] == 'expr':
                for k, (sign, t) in enumerate(n['terms']):
                    if t['t'] == 'term': slots.append((n['terms'][k], 1, t, None))
                    else: slots.append((n['terms'][k], 1, t['n'], t))
        cand = []
        for cont, key, T, frac in slots:
            direct = _direct_summed(T) | set(_free_idx(T))
            for x in sorted(set(_letters(T))):
                cand.append((cont, key, T, frac, x, x in direct))
        if not cand: return None
        cont, key, T, frac, x, direct = cand[pick % len(cand)]
        extra = [newvar([x, x])] if (pick // 3) % 2 else [newvar([x]), newvar([x])]
        if frac is None:
            cont[key] = dict(t='frac', n=T, d=dict(t='term', num=None, items=extra))
        else:
            frac['d']['items'] = frac['d']['items'] + extra
        return render(tree, base['ws']), vars, v1ok and direct
    if c == 'gen-length-mismatch':
        allv = [n for n in _walk(tree) if n['t'] == 'var']
        count = _letters(tree)
        cand = [(v, k) for v in allv for k, x in enumerate(v['idx']) if x.isalpha() and count.count(x) >= 2]
        if not cand: return None
        v, k = cand[pick % len(cand)]
        letters_pos = [j for j, x in enumerate(v['idx']) if x.isalpha()]
        if len(letters_pos) != len(v['idx']): return None     # keep numeral-indexed variables out of it
        nv = newvar(v['idx'], bump=k)
        # a traced pair must stay consistent apart from the bumped axis: handled by the parser as a mismatch as well
        v['name'] = nv['name']
        return render(tree, base['ws']), vars, v1ok
    if c == 'gen-index-sets-differ':
        exprs = [n for n in _walk(tree) if n['t'] == 'expr' and len(n['terms']) >= 2]
        if not exprs: return None
        e = exprs[pick % len(exprs)]
        unused = [x for x in LETTERS if x not in _letters(tree)]
        if not unused: return None
        sign_term = e['terms'][(pick // 5) % len(e['terms'])]
        T = sign_term[1] if sign_term[1]['t'] == 'term' else sign_term[1]['n']
        T['items'].append(newvar([unused[0]]))
        return render(tree, base['ws']), vars, v1ok
    return None


def check_corrupt(case, rec):
    from nutils import expression_v2
    r = corrupt(case)
    if r is None or r[0] is None:
        raise Discard('corruption-not-applicable')
    s, vars = r[:2]
    v1 = r[2] if len(r) > 2 else True      # the fixed rule-targeted strings violate rules that both versions document in the same words
    ns = namespace(vars)
    with warnings.catch_warnings():
        warnings.simplefilter('ignore')
        try:
            arr = s @ ns
        except expression_v2.ExpressionSyntaxError:
            pass
        except Exception as e:
            raise Violation('wrong-exception', f'{case["c"]}: {s!r} raised {type(e).__name__}: {str(e)[:200]} instead of ExpressionSyntaxError', where=case['c'] + ':' + type(e).__name__)
        else:
            raise Violation('invalid-accepted', f'{case["c"]}: {s!r} was evaluated to an array of shape {numpy.shape(arr)}', where='accepted:' + case['c'])
        if v1:
            # the same rule is documented for version 1; the index order given to eval_ is irrelevant for a string that must not parse
            from nutils import expression_v1
            ns1 = namespace_v1(vars)
            # an invalid string must be rejected whatever index order is requested; try the plausible ones so that a wrong
            # acceptance is not masked by a mismatch between the requested and the actual free indices
            frees = [''.join(sorted(case['base']['free']))] if case['c'].startswith('gen-') else ['', 'i', 'ij', ''.join(sorted(case['base']['free']))]
            for free in dict.fromkeys(frees):
                try:
                    arr = getattr(ns1, 'eval_' + free)(s)
                except expression_v1.ExpressionSyntaxError:
                    continue
                except Exception as e:
                    raise Violation('wrong-exception', f'v1 {case["c"]}: {s!r} raised {type(e).__name__}: {str(e)[:200]} instead of ExpressionSyntaxError', where='v1:' + case['c'] + ':' + type(e).__name__)
                else:
                    raise Violation('invalid-accepted', f'v1 {case["c"]}: eval_{free}({s!r}) was evaluated to an array of shape {numpy.shape(arr)}', where='v1-accepted:' + case['c'])
            rec.label('v1-rejected:' + case['c'])
    rec.nontrivial = True
    rec.key = hashlib.sha1((case['c'] + s).encode()).hexdigest()[:16]
    rec.label('rejected:' + case['c'])


# ---- expression v1 (core forms) ---------------------------------------------------------------------------

@st.composite
def v1_cases(draw, tier):
    form = draw(st.sampled_from(['inner', 'matvec', 'trace', 'numeral', 'fraction', 'power', 'sum-perm', 'stack', 'delta', 'argument', 'grad', 'eval-order', 'neg']))
    return dict(form=form, pick=draw(st.integers(0, 20)), ws=draw(st.integers(0, 3)))


def check_v1(case, rec):
    from nutils import function, mesh, expression_v1
    with warnings.catch_warnings():
        warnings.simplefilter('ignore')
        ns = function.Namespace()
        a = val('a', [3]); b = val('b', [3]); A = val('A', [3, 3]); B = val('B', [3, 2]); c = 1.75
        ns.a = a; ns.b = b; ns.A = A; ns.B = B; ns.c = c
        f = case['form']; p = case['pick']
        sp = ' ' if not case['ws'] & 1 else '  '
        try:
            if f == 'inner': s, want = f'a_i{sp}b_i', a @ b
            elif f == 'matvec': s, want = f'A_ij{sp}b_j', A @ b
            elif f == 'trace': s, want = 'A_ii', numpy.trace(A)
            elif f == 'numeral': s, want = f'A_i{p % 3}', A[:, p % 3]
            elif f == 'fraction': s, want = f'a_i{sp}b_i / c{sp}c', (a @ b) / (c * c)
            elif f == 'power': s, want = ['c^2', 'c^-2', '(a_i b_i)^2', '-c^2'][p % 4], [c ** 2, c ** -2, (a @ b) ** 2, -(c ** 2)][p % 4]
            elif f == 'sum-perm': s, want = 'A_ij + A_ji', A + A.T
            elif f == 'stack': s, want = '<c, c^2, a_1>_i', numpy.array([c, c * c, a[1]])
            elif f == 'delta': s, want = 'δ_ij a_j', a
            elif f == 'neg': s, want = '-a_i b_i + c', -(a @ b) + c
            elif f == 'eval-order':
                out = ns.eval_ij('B_ij') if p % 2 else ns.eval_ji('B_ij')
                got = numpy.asarray(function.eval(out)); want = B if p % 2 else B.T
                if got.shape != want.shape or not numpy.allclose(got, want):
                    raise Violation('wrong-value', f'v1 eval order: {got.tolist()} != {want.tolist()}', where='v1:eval-order')
                rec.nontrivial = True; rec.label('v1:' + f); return
            elif f == 'argument':
                arr = ns.eval_i('?u_i a_i' if False else 'a_i ?u')
                got = numpy.asarray(function.eval(arr, arguments=dict(u=numpy.array(2.5)))); want = a * 2.5
                if not numpy.allclose(got, want):
                    raise Violation('wrong-value', f'v1 argument: {got.tolist()} != {want.tolist()}', where='v1:argument')
                rec.nontrivial = True; rec.label('v1:' + f); return
            else:
                topo, geom = mesh.rectilinear([2, 2])
                ns.x = geom
                ns.f = 'x_0^2 x_1 + 3 x_1'
                arr = ns.eval_i('f_,i')
                smp = topo.sample('gauss', 2)
                got = smp.eval(arr); X = smp.eval(geom)
                want = numpy.stack([2 * X[:, 0] * X[:, 1], X[:, 0] ** 2 + 3], axis=1)
                if not numpy.allclose(got, want, atol=1e-12):
                    raise Violation('wrong-value', 'v1 gradient f_,i', where='v1:grad')
                rec.nontrivial = True; rec.label('v1:' + f); return
            want = numpy.asarray(want)
            name = 'eval_' + 'ij'[:want.ndim] if want.ndim else None
            arr = getattr(ns, name)(s) if name else (s @ ns)
            got = numpy.asarray(function.eval(arr))
        except Violation:
            raise
        except Exception as e:
            raise Violation('valid-raised', f'v1 {f}: {type(e).__name__}: {str(e)[:300]}', where='v1:' + f + ':' + type(e).__name__)
        if got.shape != want.shape or not numpy.allclose(got, want, rtol=1e-12):
            raise Violation('wrong-value', f'v1 {s!r}: {got.tolist()} != {want.tolist()}', where='v1:' + f)
        # a few rule violations in v1 must raise its syntax error
        for bad in ('a_i b_i c_i', 'A_ij + A_i', 'zz_i', 'a_i +b_i', '(a_i', 'c / c / c'):
            try:
                ns.eval_i(bad) if '_i' in bad and bad not in ('a_i b_i c_i',) else (bad @ ns)
            except expression_v1.ExpressionSyntaxError:
                continue
            except Exception as e:
                if bad in ('a_i b_i c_i',):   # evaluated through @ with a free index: also a syntax error is expected
                    raise Violation('wrong-exception', f'v1 {bad!r}: {type(e).__name__}: {str(e)[:200]}', where='v1-reject:' + type(e).__name__)
                raise Violation('wrong-exception', f'v1 {bad!r}: {type(e).__name__}: {str(e)[:200]}', where='v1-reject:' + type(e).__name__)
            raise Violation('invalid-accepted', f'v1 {bad!r} accepted', where='v1-accepted')
    rec.nontrivial = True
    rec.label('v1:' + f)


# ---- expressions over a mesh: gradients, divergence, normal, jacobians, jump and mean of discontinuous fields -------------

@st.composite
def field_cases(draw, tier):
    mode = draw(st.sampled_from(['interior', 'boundary', 'boundary', 'interfaces', 'interfaces']))
    g = G(draw, 2 if tier == 'quick' else 3, fields=mode)
    nfree = draw(st.sampled_from([0, 0, 1, 1, 2]))
    free = [g.fresh() for _ in range(nfree)]
    tree = g.expr(free, g.maxdepth)
    return dict(tree=tree, vars=g.vars, free=free, ws=draw(st.integers(0, 7)), mode=mode)


_MESH = {}
def _mesh():
    if not _MESH:
        from nutils import mesh, function
        topo, xi = mesh.rectilinear([2, 2])
        x = xi * numpy.array([1.5, .5])      # stretched, so that gradients with respect to x differ from those with respect to the mesh coordinates
        ha = topo.basis('discont', degree=0) @ numpy.array([1., 2.5, -1., .5])
        _MESH.update(topo=topo, x=x, ha=ha)
    return _MESH


def check_fields(case, rec):
    from nutils import expression_v2, function
    M = _mesh(); topo = M['topo']; x = M['x']
    tree = case['tree']; mode = case['mode']
    s = render(tree, case['ws'])
    with warnings.catch_warnings(), numpy.errstate(all='ignore'):
        warnings.simplefilter('ignore')
        ns = namespace(case['vars'])
        ns.x = x
        ns.define_for('x', gradient='∇', normal='n', jacobians=('dV', 'dS'))
        ns.fa = 1 + x[0] * x[1] - .5 * x[1] ** 2; ns.fb = x[0] ** 2 + .25 * x[1] + .5
        ns.ga = numpy.stack([x[0] * x[1], x[0] - x[1] ** 2]); ns.gb = numpy.stack([1 + x[1], x[0] ** 2])
        ns.ma = numpy.stack([numpy.stack([x[0], x[1]]), numpy.stack([x[0] * x[1], function.ones(())])])
        ns.ha = M['ha']
        ns.sg = lambda u: function.surfgrad(u, x)
        smp = topo.sample('gauss', 1) if mode == 'interior' else topo.boundary.sample('gauss', 1) if mode == 'boundary' else topo.interfaces.sample('gauss', 1)
        try:
            arr = s @ ns
        except expression_v2.ExpressionSyntaxError as e:
            raise Violation('valid-rejected', f'{s!r}: {str(e).splitlines()[0]}', where='fields-valid-rejected:' + str(e).split('.')[0][:40])
        except Exception as e:
            raise Violation('valid-raised', f'{s!r}: {type(e).__name__}: {str(e)[:200]}', where='fields-valid-raised:' + type(e).__name__)
        try:
            got, X, HA, HB = smp.eval([arr, x, M['ha'], function.opposite(M['ha']) if mode == 'interfaces' else M['ha']])     # a boundary point has no opposite side
        except Exception as e:
            raise Violation('valid-raised', f'evaluating {s!r} on the {mode} sample: {type(e).__name__}: {str(e)[:200]}', where='fields-eval-raised:' + type(e).__name__)
        got = numpy.asarray(got)
        for p in range(len(X)):
            if mode == 'boundary':
                xp = X[p]
                nrm = numpy.array([-1., 0.]) if abs(xp[0]) < 1e-9 else numpy.array([1., 0.]) if abs(xp[0] - 3) < 1e-9 else numpy.array([0., -1.]) if abs(xp[1]) < 1e-9 else numpy.array([0., 1.])
                dS = .5 if nrm[0] else 1.5       # edge length scale along the boundary
            else:
                nrm = numpy.zeros(2); dS = 0.
            ctx = dict(x=X[p], h=(HA[p], HB[p]), n=nrm, dV=.75, dS=dS, fderr=[])
            want, idx = evaluate(tree, case['vars'], ctx)
            if not numpy.isfinite(want).all() or (want.size and abs(want).max() > 1e8):
                raise Discard('reference-nonfinite')
            if ctx['fderr'] and max(ctx['fderr']) > 1e-8:
                raise Discard('finite-difference-gradient-not-converged')     # kink (abs) or near-singular power under a gradient
            order = sorted(idx)
            want = numpy.transpose(want, [idx.index(i) for i in order]) if idx else want
            if got[p].shape != want.shape or not numpy.allclose(got[p], want, rtol=1e-6, atol=1e-7 * (1 + (abs(want).max() if want.size else 0))):
                raise Violation('wrong-value', f'{s!r} @ ns on the {mode} sample, point {p} x={X[p].tolist()}: {got[p].tolist()} != reading {want.tolist()} (indices {order})', where='value:fields:' + mode)
        # the same tree in version 1 spelling (gradients as trailing ,k / ;k), where every construct exists there
        if not any(n['t'] == 'call' and n['gen'] and n['f'] not in ('∇', 'sg') for n in _walk(tree)):
            from nutils import expression_v1
            s1 = render(tree, case['ws'], v1=True)
            ns1 = namespace_v1(case['vars'])
            ns1.x = x
            ns1.fa = ns.fa; ns1.fb = ns.fb; ns1.ga = ns.ga; ns1.gb = ns.gb; ns1.ma = ns.ma; ns1.ha = M['ha']
            ns1.dV = function.J(x); ns1.dS = function.J(x, 1)
            order1 = ''.join(sorted(_free_idx(tree)))
            try:
                arr1 = getattr(ns1, 'eval_' + order1)(s1)
                got1 = numpy.asarray(smp.eval(arr1))
            except expression_v1.ExpressionSyntaxError as e:
                raise Violation('valid-rejected', f'v1 eval_{order1}({s1!r}): {str(e).splitlines()[0]}', where='fields-v1-rejected:' + str(e).split('.')[0][:40])
            except Exception as e:
                raise Violation('valid-raised', f'v1 eval_{order1}({s1!r}) on the {mode} sample: {type(e).__name__}: {str(e)[:200]}', where='fields-v1-raised:' + type(e).__name__)
            if got1.shape != got.shape or not numpy.allclose(got1, got, rtol=1e-9, atol=1e-10 * (1 + (abs(got).max() if got.size else 0))):
                # version 2 agreed with the reading above, so a difference is version 1's
                bad = numpy.argwhere(~numpy.isclose(got1, got, rtol=1e-9, atol=1e-10 * (1 + abs(got).max())))[0] if got1.shape == got.shape else None
                raise Violation('wrong-value', f'v1 eval_{order1}({s1!r}) on the {mode} sample differs from the reading (and from version 2): shapes {got1.shape} / {got.shape}' + ('' if bad is None else f', point {bad[0]}: {got1[tuple(bad)]} vs {got[tuple(bad)]}'), where='value:fields-v1:' + mode)
            rec.label('fields-v1')
    kinds = _kinds(tree)
    names = {n['name'] for n in _walk(tree) if n['t'] == 'var'}
    grads = sum(1 for n in _walk(tree) if n['t'] == 'call' and n['f'] in ('∇', 'sg'))
    rec.nontrivial = bool(grads or kinds & {'scope:[', 'scope:{'} or names & {'n', 'dV', 'dS'})
    rec.key = hashlib.sha1((mode + s).encode()).hexdigest()[:16]
    rec.label('mode:' + mode, 'gradients:%d' % min(grads, 3), *('field:' + n for n in names & {'fa', 'fb', 'ga', 'gb', 'ma', 'ha', 'n', 'dV', 'dS'}), *('fields-node:' + k for k in kinds if k.startswith('scope')))
    if any(n['t'] == 'call' and n['f'] in ('∇', 'sg') and n['gen'][0] in _letters(n['e']) for n in _walk(tree)): rec.label('divergence')
    if any(n['t'] == 'call' and n['f'] == 'sg' for n in _walk(tree)): rec.label('surface-gradient')
    if any(n['t'] == 'scope' and n['kind'] in '[{' and 'ha' in {m['name'] for m in _walk(n) if m['t'] == 'var'} for n in _walk(tree)): rec.label('jump-or-mean-of-discontinuous')


# ---- single-character edits: rejected cleanly or accepted, never another exception -------------------------

ALPHABET = list(' +-/^()[]{}<>_,.:?0123456789ijkvxδ∇$\t')


@st.composite
def edit_cases(draw, tier):
    base = draw(valid_cases(tier))
    return dict(base=base, kind=draw(st.sampled_from(['delete', 'insert', 'replace', 'swap', 'duplicate'])), pos=draw(st.integers(0, 200)), ch=draw(st.sampled_from(ALPHABET)))


def edit(case):
    s = render(case['base']['tree'], case['base']['ws'])
    if not s: return None
    k = case['kind']; p = case['pos'] % (len(s) + (1 if k == 'insert' else 0))
    if k == 'delete': return s[:p] + s[p + 1:]
    if k == 'insert': return s[:p] + case['ch'] + s[p:]
    if k == 'replace': return s[:p] + case['ch'] + s[p + 1:]
    if k == 'duplicate': return s[:p] + s[p] + s[p:]
    if p + 1 >= len(s): return None
    return s[:p] + s[p + 1] + s[p] + s[p + 2:]


def check_edit(case, rec):
    """a string one edit away from a valid one is either rejected with the module's syntax error or parsed; any other exception
    (an internal IndexError, KeyError, AssertionError ...) is neither. Whether an accepted edit is *valid* is not judged here."""
    from nutils import expression_v1, expression_v2
    s = edit(case)
    if s is None:
        raise Discard('edit-not-applicable')
    vars = case['base']['vars']
    free = ''.join(sorted(case['base']['free']))
    with warnings.catch_warnings():
        warnings.simplefilter('ignore')
        ns = namespace(vars)
        try:
            arr = s @ ns
            out2 = 'accepted'
        except expression_v2.ExpressionSyntaxError:
            out2 = 'rejected'
        except Exception as e:
            raise Violation('wrong-exception', f'v2 {s!r} ({case["kind"]} edit of a valid string) raised {type(e).__name__}: {str(e)[:200]}', where='edit-v2:' + type(e).__name__)
        if any(n['t'] == 'call' and n['gen'] for n in _walk(case['base']['tree'])):
            rec.label('edit:' + case['kind'], 'v2:' + out2); rec.nontrivial = True
            rec.key = hashlib.sha1(s.encode()).hexdigest()[:16]
            return       # generating functions follow another protocol in version 1: such strings are only run through version 2
        ns1 = namespace_v1(vars)
        try:
            arr = getattr(ns1, 'eval_' + free)(s)
            out1 = 'accepted'
        except expression_v1.ExpressionSyntaxError:
            out1 = 'rejected'
        except TypeError as e:
            if '<lambda>' in str(e):      # the edit changed the number of arguments passed to the harness' own function `sqr`: the TypeError is that function's
                rec.label('edit:harness-function-arity'); out1 = 'rejected'
            else:
                raise Violation('wrong-exception', f'v1 eval_{free}({s!r}) ({case["kind"]} edit of a valid string) raised {type(e).__name__}: {str(e)[:200]}', where='edit-v1:' + type(e).__name__)
        except Exception as e:
            raise Violation('wrong-exception', f'v1 eval_{free}({s!r}) ({case["kind"]} edit of a valid string) raised {type(e).__name__}: {str(e)[:200]}', where='edit-v1:' + type(e).__name__)
    rec.label('edit:' + case['kind'], 'v2:' + out2, 'v1:' + out1)
    rec.nontrivial = True
    rec.key = hashlib.sha1(s.encode()).hexdigest()[:16]



# ---- version 1: user functions that consume axes, `f:ij(...)` ----------------------------------------------------------------

@st.composite
def v1consume_cases(draw, tier):
    nd = draw(st.integers(2, 3))
    letters = list(draw(st.permutations('ijk'[:nd])))           # order of the indices on the array
    ncons = draw(st.integers(1, nd))
    cons = list(draw(st.permutations(letters)))[:ncons]          # consumed indices, in the order written after the colon
    free = [l for l in letters if l not in cons]
    out = list(draw(st.permutations(free)))
    return dict(nd=nd, letters=letters, cons=cons, out=out, w=[draw(st.sampled_from([-2., -1., .5, 1., 3.])) for _ in range(9)], vals=[draw(st.integers(-5, 5)) for _ in range(24)], twice=draw(st.booleans()))


def check_v1consume(case, rec):
    from nutils import function, expression_v1
    shape = {'i': 2, 'j': 3, 'k': 4}
    letters, cons, out = case['letters'], case['cons'], case['out']
    A = numpy.resize(numpy.array(case['vals'], dtype=float), [shape[l] for l in letters])
    # the function contracts consumed axis number q with its own weight vector: not symmetric in the consumed axes
    W = [numpy.resize(numpy.array(case['w']) * (q + 1), 4) + q for q in range(3)]
    def weigh(arg, *, consumes=0):
        arg = function.Array.cast(arg)
        for q in reversed(range(consumes)):
            arg = (arg * W[q][:arg.shape[-1]]).sum(-1)
        return arg
    ns = expression_v1.Namespace(functions=dict(weigh=weigh))
    ns.A = A
    s = 'weigh:{}(A_{})'.format(''.join(cons), ''.join(letters))
    if case['twice'] and out: s = '2 ' + s + ' + ' + s
    # reading: the consumed axes, in the order given after the colon, are axes 0, 1, .. of the function's trailing block; the rest keeps the requested order
    sub = ''.join(letters) + ',' + ','.join(cons) + '->' + ''.join(out)
    want = numpy.einsum(sub, A, *[W[q][:shape[c]] for q, c in enumerate(cons)]) * (3 if case['twice'] and out else 1)
    try:
        f = getattr(ns, 'eval_' + ''.join(out))(s)
        got = numpy.asarray(function.eval(f))
    except Exception as e:
        raise Violation('valid-raised', f'v1 {s!r} (eval_{"".join(out)}): {type(e).__name__}: {str(e)[:200]}', where='v1consume:raised:' + type(e).__name__)
    if got.shape != want.shape or not numpy.allclose(got, want, rtol=1e-12, atol=1e-12):
        raise Violation('wrong-value', f'v1 {s!r} with eval_{"".join(out)}: {got.tolist()} != {want.tolist()} (A has axes {letters}; consumed axis q is contracted with weight vector q)', where='v1consume:value')
    rec.nontrivial = len(cons) >= 2
    rec.label('v1consume:%d-of-%d' % (len(cons), case['nd']), *(['v1consume:order-differs'] if [l for l in letters if l in cons] != cons else []))


SUBS = [Sub('valid', valid_cases, check_valid, {'quick': 1500, 'thorough': 20000}, weight=4),
        Sub('corrupt', corrupt_cases, check_corrupt, {'quick': 600, 'thorough': 6000}, weight=1),
        Sub('v1', v1_cases, check_v1, {'quick': 100, 'thorough': 1000}, weight=1),
        Sub('edits', edit_cases, check_edit, {'quick': 1500, 'thorough': 30000}, weight=1),
        Sub('fields', field_cases, check_fields, {'quick': 500, 'thorough': 8000}, weight=3, timeout=120),
        Sub('v1consume', v1consume_cases, check_v1consume, {'quick': 150, 'thorough': 2000}, weight=1)]

TRIGGERS = {}

MANIFEST = dict(
    category='exploration',
    technique='grammar-based property testing (Hypothesis): syntax trees with generator-side index bookkeeping rendered to expression strings; namespace evaluation vs numpy evaluation of the tree; rule-targeted corruptions must raise ExpressionSyntaxError',
    text='Expression strings are rendered from generated syntax trees of the documented v2 grammar (and a set of v1 core forms) so that their index-notation reading is known by construction; evaluation through the Namespace '
         '(both @ and attribute assignment with explicit index order) must equal the numpy evaluation of the tree; strings violating one documented rule must raise the module\'s ExpressionSyntaxError and nothing else. '
         'Held on everything explored; depth <=3, rank <=3.',
    note='Trusted: numpy evaluation of the generated tree; Hypothesis. jump/mean are exercised on constants only; random single-character edits are not asserted.',
)
