"""C14 — Solvers return a certified solution or raise (DESIGN.md §4 C14)."""
import numpy, warnings
from hypothesis import strategies as st
from vlib.core import Sub, Violation, Discard

PROPERTY = 'C14'
LEVEL = 'exploration'
BUDGET = {'quick': 50, 'thorough': 500}
SHARDS = {'quick': 8, 'thorough': 16}
RULE = ('cases: (constraints) System.solve_constraints on generated symmetric and two-argument linear systems with dropped columns: NaN exactly where the column is below droptol, the other entries solve the subsystem; (matrix) Matrix.solve on generated systems n<=8 (well/ill conditioned, exactly singular, non-symmetric, SPD, complex), right-hand sides (vector, multi-column, zero), lhs0, '
        'bool/NaN-float constrain and rconstrain patterns, atol/rtol in {0,1e-12..1e-2}, every solver/preconditioner of the numpy and scipy backends; (system) solver.System on generated '
        'residual vectors / functionals r(u)=A u - b + c u^3 + d exp(u) + e log(u) (linear and nonlinear, incl. ones that become non-finite or have no solution), constraints, initial guesses, '
        'methods Direct/Newton/ReuseNewton/LinesearchNewton(NormBased|MedianBased)/Minimize/Arnoldi, tol/miniter/maxiter, the legacy wrappers solve_linear/newton/minimize/optimize, '
        'solve_constraints(droptol) and step() sequences with bisection retry. oracle (outcome based): raised => MatrixError/SolverError family (or documented ValueError); returned => all finite, '
        'constrained entries exactly as prescribed, residual of the free equations recomputed densely by the harness within the requested tolerance (+ stated rounding slack), backward-error '
        'criterion for atol=rtol=0, linear solutions independent of the initial guess, solve_constraints NaN pattern == columns below droptol. non-trivial: anything but a well-conditioned '
        'unconstrained direct solve; distinct = case hash')
ASSUMPTIONS = ['residual recomputation by the harness carries rounding slack 16 n eps (|A||x|+|b|)', '"machine precision" for atol=rtol=0 is asserted as backward error <= 1e3 n eps (|A||x|+|b|)',
               'MKL backend not available; Pseudotime and thetamethod are exercised only through System.step in this version']

EPS = numpy.finfo(float).eps
V = [-2., -1., -.5, .5, 1., 2., 3., .25, 0.]


def backends():
    from nutils import matrix
    out = ['numpy']
    try:
        matrix.backend('scipy'); out.append('scipy')
    except Exception:
        pass
    return out


_B = None
def get_backends():
    global _B
    if _B is None: _B = backends()
    return _B


@st.composite
def matrix_cases(draw, tier):
    n = draw(st.integers(1, 8))
    kind = draw(st.sampled_from(['dominant', 'dominant', 'spd', 'general', 'ill', 'singular', 'singular-zero-row', 'complex', 'overflow']))
    entries = [[draw(st.sampled_from(V)) for _ in range(n)] for _ in range(n)]
    sparsity = draw(st.sampled_from([1.0, 0.6, 0.3]))
    mask = [[draw(st.integers(0, 99)) < 100 * sparsity for _ in range(n)] for _ in range(n)]
    nrhs = draw(st.sampled_from([0, 0, 0, 1, 2]))   # 0: vector
    rhs = [[draw(st.sampled_from(V)) for _ in range(max(nrhs, 1))] for _ in range(n)]
    rhskind = draw(st.sampled_from(['given', 'given', 'zero', 'none', 'consistent']))
    cons = draw(st.sampled_from(['none', 'none', 'bool', 'nan', 'bool+rcons', 'rcons-only']))
    cmask = [draw(st.booleans()) for _ in range(n)]
    rmask = draw(st.permutations(cmask))
    again = [list(draw(st.permutations(cmask))) for _ in range(draw(st.sampled_from([0, 0, 1, 2])))]    # further solves on the same Matrix object: same number of constraints elsewhere
    if cons == 'bool+rcons' and draw(st.booleans()):
        # after a solve with different free rows and free columns, a square solve whose free set is that of the rows (or of the columns): the matrix object keeps a submatrix cache
        again.insert(0, dict(cons='bool', cmask=list(rmask) if draw(st.booleans()) else list(cmask)))
    cvals = [draw(st.sampled_from(V)) for _ in range(n)]
    lhs0 = [draw(st.sampled_from(V)) for _ in range(n)] if draw(st.booleans()) else None
    tol = draw(st.sampled_from([[0, 0], [0, 0], [1e-12, 0], [0, 1e-10], [1e-8, 0], [1e-2, 0], [0, 1e-3], [1e-10, 1e-6]]))
    be = draw(st.sampled_from(['numpy', 'scipy']))
    solver = draw(st.sampled_from(['direct', 'arnoldi', 'arnoldi', 'default'] + (['cg', 'gmres', 'bicg', 'bicgstab', 'lgmres', 'cgs'] if be == 'scipy' else [])))
    precon = draw(st.sampled_from([None, None, 'direct', 'diag'] + (['splu', 'spilu', 'spilu0'] if be == 'scipy' else [])))
    truncate = draw(st.sampled_from([None, None, 2, 5]))
    return dict(n=n, kind=kind, entries=entries, mask=mask, nrhs=nrhs, rhs=rhs, rhskind=rhskind, cons=cons, cmask=cmask, rmask=list(rmask), cvals=cvals, lhs0=lhs0, again=again,
                atol=tol[0], rtol=tol[1], backend=be, solver=solver, precon=precon, truncate=truncate, scale=draw(st.sampled_from([1e-6, 1e-9, 1e-12])))


def make_matrix(case):
    n = case['n']
    A = numpy.array(case['entries'], dtype=float) * numpy.array(case['mask'], dtype=float)
    kind = case['kind']
    if kind == 'dominant':
        A = A + numpy.diag(abs(A).sum(1) + 1)
    elif kind == 'spd':
        A = A @ A.T + numpy.eye(n)
    elif kind == 'ill':
        A = A + numpy.diag(abs(A).sum(1) + 1)
        A[n - 1] = A[0] * (1 + case['scale']) if n > 1 else A[n - 1]
    elif kind == 'singular':
        A = A + numpy.diag(abs(A).sum(1) + 1)
        if n > 1: A[n - 1] = A[0]
        else: A[0, 0] = 0
    elif kind == 'singular-zero-row':
        A = A + numpy.eye(n)
        A[0] = 0
    elif kind == 'overflow':
        # finite, regular system whose solution is not representable: one equation scaled into the subnormal range
        A = A + numpy.diag(abs(A).sum(1) + 1)
        A[n - 1] = A[n - 1] * 1e-310
    elif kind == 'complex':
        A = (A + numpy.diag(abs(A).sum(1) + 1)).astype(complex) + 1j * numpy.array(case['entries'], dtype=float).T * .5
    return A


def check_matrix(case, rec):
    # the first solve, then (for constrained cases) further solves on the same Matrix object with the constraints moved: cached submatrices / preconditioners must not leak
    holder = {}
    _check_matrix_one(case, rec, holder)
    if case['cons'] in ('bool', 'nan', 'bool+rcons') and 'M' in holder:
        for k, cm in enumerate(case.get('again', [])):
            if isinstance(cm, dict):
                rec.label('square-resolve-after-rconstrain')
                _check_matrix_one(dict(case, **cm), rec, holder)
                continue
            if cm != case['cmask']: rec.label('resolve-with-moved-constraints')
            _check_matrix_one(dict(case, cmask=cm), rec, holder)


def _check_matrix_one(case, rec, holder):
    from nutils import matrix
    be = case['backend'] if case['backend'] in get_backends() else 'numpy'
    n = case['n']
    A = make_matrix(case)
    cplx = A.dtype.kind == 'c'
    rhs = numpy.array(case['rhs'], dtype=A.dtype)
    if case['nrhs'] == 0 or case['solver'] in ('cg', 'gmres', 'bicg', 'bicgstab', 'lgmres', 'cgs'): rhs = rhs[:, 0]   # scipy's iterative solvers take vectors only
    if case['rhskind'] == 'zero': rhs = rhs * 0
    if case['rhskind'] == 'consistent': rhs = (A @ numpy.ones(n)).reshape(n, *([1] * (rhs.ndim - 1))) * numpy.ones_like(rhs)
    kwargs = dict(atol=case['atol'], rtol=case['rtol'])
    solver = case['solver']
    if solver in ('cg',) and case['kind'] != 'spd':
        solver = 'gmres'
    if solver != 'default':
        kwargs['solver'] = solver
    if case['precon'] and solver in ('arnoldi', 'direct', 'default', 'gmres', 'cg', 'bicg', 'bicgstab', 'lgmres', 'cgs'):
        if not (solver == 'direct' and case['precon'] == 'diag'):   # direct+diag is a diagonal "solve": a legitimate preconditioner, a poor direct solver; still allowed
            kwargs['precon'] = case['precon']
    if case['truncate'] and solver in ('arnoldi', 'default'):
        kwargs['truncate'] = case['truncate']
    if solver in ('cg', 'gmres', 'bicg', 'bicgstab', 'lgmres', 'cgs') and case['atol'] == 0 and case['rtol'] == 0:
        kwargs['atol'] = 1e-10    # scipy's iterative solvers need a tolerance
    cons = case['cons']
    cmask = numpy.array(case['cmask'], dtype=bool)
    rmask = numpy.array(case['rmask'], dtype=bool)
    lhs0 = None if case['lhs0'] is None else numpy.array(case['lhs0'], dtype=float)
    prescribed = numpy.full(n, numpy.nan, dtype=A.dtype)
    if cons == 'bool' or cons == 'bool+rcons':
        kwargs['constrain'] = cmask
        prescribed[cmask] = 0 if lhs0 is None else lhs0[cmask]
    elif cons == 'nan':
        c = numpy.where(cmask, numpy.array(case['cvals']), numpy.nan)
        kwargs['constrain'] = c
        prescribed[cmask] = numpy.array(case['cvals'])[cmask]
    if cons == 'bool+rcons':
        kwargs['rconstrain'] = rmask
    if cons == 'rcons-only':
        if rmask.any():
            raise Discard('rconstrain-without-constrain-nonsquare')
        kwargs['rconstrain'] = rmask
    if lhs0 is not None:
        kwargs['lhs0'] = lhs0
    if case['rhskind'] != 'none':
        args = (rhs,)
    else:
        args = (); rhs = numpy.zeros(n, dtype=A.dtype)
        if cons == 'none' and lhs0 is None:
            raise Discard('rhs-none-needs-constraints')
    free_cols = numpy.isnan(prescribed) if cons in ('bool', 'nan', 'bool+rcons') else numpy.ones(n, dtype=bool)
    free_rows = ~rmask if 'rconstrain' in kwargs else free_cols
    with matrix.backend(be), warnings.catch_warnings():
        warnings.simplefilter('ignore')
        if 'M' not in holder:
            rows, cols = numpy.nonzero(A)
            holder['M'] = matrix.assemble_coo(A[rows, cols], rows, n, cols, n)
        M = holder['M']
        try:
            x = M.solve(*args, **kwargs)
        except matrix.MatrixError as e:
            outcome = type(e).__name__
            if isinstance(e, matrix.ToleranceNotReached):
                best = e.best
                if best is None or numpy.shape(best)[0] != n:
                    raise Violation('tolerance-not-reached-without-best', f'{best!r}', where='best')
            # a square free block is required: not square is a legitimate MatrixError
            rec.label('outcome:' + outcome)
            rec.nontrivial = True
            return
        except (ValueError, TypeError, AssertionError) as e:
            if free_rows.sum() != free_cols.sum():
                rec.label('outcome:rejected-nonsquare'); return
            raise Violation('solve-raised', f'{type(e).__name__}: {str(e)[:200]} for {_descr(case, kwargs)}', where='solve:' + type(e).__name__)
        except Exception as e:
            raise Violation('solve-raised', f'{type(e).__name__}: {str(e)[:200]} for {_descr(case, kwargs)}', where='solve:' + type(e).__name__)
    x = numpy.asarray(x)
    if x.shape != rhs.shape:
        raise Violation('solution-shape', f'{x.shape} for rhs {rhs.shape}', where='shape')
    if not numpy.isfinite(x).all():
        raise Violation('nonfinite-solution', f'{x.tolist()} for {_descr(case, kwargs)}', where='nonfinite')
    # constrained entries exactly as prescribed
    pc = ~numpy.isnan(prescribed)
    if pc.any():
        want = prescribed[pc].reshape((-1,) + (1,) * (x.ndim - 1))
        if not numpy.array_equal(x[pc], numpy.broadcast_to(want, x[pc].shape)):
            raise Violation('constraint-violated', f'constrained entries {x[pc].tolist()} != prescribed {prescribed[pc].tolist()} for {_descr(case, kwargs)}', where='constraint')
    # residual of the free equations
    r = (rhs - A @ x)[free_rows]
    resnorm = numpy.linalg.norm(r, axis=0).max() if r.size else 0.
    normA = numpy.linalg.norm(A); normx = numpy.linalg.norm(x); normb = numpy.linalg.norm(rhs)
    x0 = numpy.zeros(x.shape, dtype=A.dtype)
    if lhs0 is not None: x0 = x0 + lhs0.reshape((-1,) + (1,) * (x.ndim - 1))
    if pc.any() and cons == 'nan': x0[pc] = numpy.broadcast_to(prescribed[pc].reshape((-1,) + (1,) * (x.ndim - 1)), x0[pc].shape)
    slack = 16 * n * EPS * (normA * (normx + numpy.linalg.norm(x0)) + normb)
    bprime = (rhs - A @ x0)[free_rows]
    bnorm = numpy.linalg.norm(bprime, axis=0).max() if bprime.size else 0.
    atol = max(kwargs['atol'], kwargs['rtol'] * bnorm)
    if atol > 0:
        if resnorm > atol + slack:
            raise Violation('tolerance-not-met', f'residual {resnorm:.3e} > max(atol, rtol |b|) = {atol:.3e} (+slack {slack:.1e}) for {_descr(case, kwargs)}', where='tolerance:' + solver)
    else:
        bw = 1e3 * n * EPS * (normA * (normx + numpy.linalg.norm(x0)) + normb) + 1e-300   # the solve is for the increment: |A||dx| + |b - A x0|
        if resnorm > bw:
            raise Violation('not-machine-precision', f'atol=rtol=0: residual {resnorm:.3e}, backward error bound {bw:.3e} for {_descr(case, kwargs)}', where='machine-precision:' + solver)
    rec.label('outcome:returned', 'kind:' + case['kind'], 'solver:' + solver, 'backend:' + be, 'cons:' + cons)
    rec.nontrivial = not (case['kind'] == 'dominant' and solver in ('direct', 'default') and cons == 'none')


def _descr(case, kwargs):
    return f"n={case['n']} kind={case['kind']} backend={case['backend']} " + ' '.join(f'{k}={v!r}' if not isinstance(v, numpy.ndarray) else f'{k}={v.tolist()}' for k, v in kwargs.items())


# ---- solver.System ------------------------------------------------------------------------------------

@st.composite
def system_cases(draw, tier):
    n = draw(st.integers(1, 5))
    A = [[draw(st.sampled_from(V)) for _ in range(n)] for _ in range(n)]
    b = [draw(st.sampled_from(V)) for _ in range(n)]
    form = draw(st.sampled_from(['residual', 'functional']))
    terms = dict(cubic=draw(st.sampled_from([0., 0., .5, 1.])), exp=draw(st.sampled_from([0., 0., .25])), log=draw(st.sampled_from([0., 0., 0., 1.])), sqrt=draw(st.sampled_from([0., 0., 0., 1.])),
                 nosol=draw(st.sampled_from([False, False, False, True])))
    method = draw(st.sampled_from(['default', 'Direct', 'Newton', 'ReuseNewton', 'LinesearchNewton', 'LinesearchNewton-median', 'Minimize', 'Arnoldi', 'Pseudotime', 'legacy-pseudotime',
                                   'legacy-newton', 'legacy-solve_linear', 'legacy-minimize', 'legacy-optimize']))
    cons = draw(st.sampled_from(['none', 'none', 'bool', 'nan']))
    cmask = [draw(st.booleans()) for _ in range(n)]
    cvals = [draw(st.sampled_from(V)) for _ in range(n)]
    u0 = [draw(st.sampled_from(V)) for _ in range(n)] if draw(st.integers(0, 3)) else None
    u0b = [draw(st.sampled_from(V)) for _ in range(n)]
    return dict(n=n, A=A, b=b, form=form, terms=terms, method=method, cons=cons, cmask=cmask, cvals=cvals, u0=u0, u0b=u0b,
                tol=draw(st.sampled_from([1e-10, 1e-8, 1e-6, 1e-3])), maxiter=draw(st.sampled_from([50, 50, 20, 3, 0])), miniter=draw(st.sampled_from([0, 0, 0, 1, 2])),
                second=draw(st.sampled_from(['none', 'solve_constraints', 'step'])), droptol=draw(st.sampled_from([1e-12, 1e-8, .3, .6])))


def build_system(case):
    from nutils import function, solver
    n = case['n']
    A = numpy.array(case['A']); A = A + numpy.diag(abs(A).sum(1) + 1)
    if case['form'] == 'functional':
        A = (A + A.T) / 2
    b = numpy.array(case['b'])
    u = function.Argument('u', (n,))
    t = case['terms']
    linear = not (t['cubic'] or t['exp'] or t['log'] or t['sqrt'])
    if case['form'] == 'residual':
        res = (A @ u if False else (function.Array.cast(A) * u[None, :]).sum(1)) - b
        if t['cubic']: res = res + t['cubic'] * u ** 3
        if t['exp']: res = res + t['exp'] * numpy.exp(u)
        if t['log']: res = res + t['log'] * numpy.log(u)
        if t['sqrt']: res = res + t['sqrt'] * numpy.sqrt(u)
        if t['nosol'] and not linear: res = res + 1e3 + 10 * u ** 2 * 0 + (u * 0 + 1) * numpy.exp(u) * 0 + 5 * (u ** 2)   # convex term pushing the residual away from zero
        S = solver.System([res], trial='u')
        fun = res
    else:
        val = .5 * (u[:, None] * function.Array.cast(A) * u[None, :]).sum(-1).sum(-1) - (b * u).sum()
        if t['cubic']: val = val + t['cubic'] * .25 * (u ** 4).sum()
        if t['exp']: val = val + t['exp'] * numpy.exp(u).sum()
        if t['log']: val = val + t['log'] * (u * numpy.log(u) - u).sum()
        if t['sqrt']: val = val + t['sqrt'] * (2 / 3.) * (u ** 1.5).sum()
        S = solver.System(val, trial='u')
        fun = function.derivative(val, 'u')
    return S, fun, u, linear, A, b


def check_system(case, rec):
    from nutils import function, solver, matrix
    import treelog
    n = case['n']
    with warnings.catch_warnings(), treelog.set(treelog.NullLog()), numpy.errstate(all='ignore'):
        warnings.simplefilter('ignore')
        S, fun, u, linear, A, b = build_system(case)
        resfun = lambda x: numpy.asarray(function.eval(fun, arguments=dict(u=x)))
        args = {} if case['u0'] is None else dict(u=numpy.array(case['u0']))
        cmask = numpy.array(case['cmask'], dtype=bool)
        cons = {}
        prescribed = numpy.full(n, numpy.nan)
        if case['cons'] == 'bool':
            cons = dict(u=cmask); prescribed[cmask] = (numpy.zeros(n) if case['u0'] is None else numpy.array(case['u0']))[cmask]
        elif case['cons'] == 'nan':
            cons = dict(u=numpy.where(cmask, numpy.array(case['cvals']), numpy.nan)); prescribed[cmask] = numpy.array(case['cvals'])[cmask]
        free = numpy.isnan(prescribed)
        tol = case['tol']
        m = case['method']
        kw = dict(arguments=args, constrain=cons, tol=tol)
        if case['maxiter'] is not None: kw['maxiter'] = case['maxiter']
        if case['miniter']: kw['miniter'] = case['miniter']

        def run(arguments):
            k = dict(kw, arguments=arguments)
            if m == 'default': return S.solve(**k)['u']
            if m == 'Direct': return S.solve(method=solver.Direct(), **k)['u']
            if m == 'Newton': return S.solve(method=solver.Newton(), **k)['u']
            if m == 'ReuseNewton': return S.solve(method=solver.ReuseNewton(), **k)['u']
            if m == 'LinesearchNewton': return S.solve(method=solver.LinesearchNewton(), **k)['u']
            if m == 'LinesearchNewton-median': return S.solve(method=solver.LinesearchNewton(strategy=solver.MedianBased()), **k)['u']
            if m == 'Minimize': return S.solve(method=solver.Minimize(), **k)['u']
            if m == 'Arnoldi': return S.solve(method=solver.Arnoldi(), **k)['u']
            if m == 'Pseudotime':
                if case['form'] != 'residual': raise Discard('pseudotime-needs-residual')
                return S.solve(method=solver.Pseudotime(inertia=(u,), timestep=case['tol'] and 1.), **k)['u']
            lhs0 = arguments.get('u')
            c = cons.get('u')
            if c is not None and c.dtype == bool:
                c = numpy.where(c, numpy.zeros(n) if lhs0 is None else lhs0, numpy.nan)
            if m == 'legacy-newton':
                return solver.newton('u', fun, lhs0=lhs0, constrain=c).solve(tol, **({'maxiter': case['maxiter']} if case['maxiter'] is not None else {}))
            if m == 'legacy-solve_linear':
                return solver.solve_linear('u', fun, lhs0=lhs0, constrain=c)
            if m == 'legacy-pseudotime':
                return solver.pseudotime('u', fun, inertia=u, timestep=1., lhs0=numpy.zeros(n) if lhs0 is None else lhs0, constrain=c).solve(tol, **({'maxiter': case['maxiter']} if case['maxiter'] is not None else {}))
            if case['form'] != 'functional':
                raise Discard('legacy-minimize-needs-functional')
            val = S._System__value if hasattr(S, '_System__value') else None
            energy = _energy(case, u)
            if m == 'legacy-minimize':
                return solver.minimize('u', energy, lhs0=lhs0, constrain=c).solve(tol, **({'maxiter': case['maxiter']} if case['maxiter'] is not None else {}))
            return solver.optimize('u', energy, tol=tol, lhs0=lhs0, constrain=c)

        declared_invalid = (m in ('Direct', 'legacy-solve_linear') and not linear) or (m in ('Minimize', 'legacy-minimize', 'legacy-optimize') and case['form'] != 'functional')
        try:
            x = run(dict(args))
        except Discard:
            raise
        except (solver.SolverError, matrix.MatrixError) as e:
            rec.label('outcome:' + type(e).__name__, 'method:' + m); rec.nontrivial = True
            return
        except (ValueError, TypeError) as e:
            if declared_invalid or 'strictly positive tolerance' in str(e) or 'not linear' in str(e) or 'symmetric' in str(e):
                rec.label('outcome:rejected'); return
            raise Violation('solve-raised', f'{m}: {type(e).__name__}: {str(e)[:300]}', where=f'system:{m}:{type(e).__name__}')
        except Exception as e:
            raise Violation('solve-raised', f'{m}: {type(e).__name__}: {str(e)[:300]}', where=f'system:{m}:{type(e).__name__}')
        x = numpy.asarray(x)
        if x.shape != (n,):
            raise Violation('solution-shape', f'{x.shape}', where='system:shape')
        if not numpy.isfinite(x).all():
            raise Violation('nonfinite-solution', f'{m}: {x.tolist()}', where='system:nonfinite:' + m)
        pc = ~free
        if pc.any() and not numpy.array_equal(x[pc], prescribed[pc]):
            raise Violation('constraint-violated', f'{m}: {x[pc].tolist()} != {prescribed[pc].tolist()}', where='system:constraint:' + m)
        r = resfun(x)[free]
        rn = numpy.linalg.norm(r) if r.size else 0.
        slack = 64 * n * EPS * (numpy.linalg.norm(A) * numpy.linalg.norm(x) + numpy.linalg.norm(b) + 1)
        lin_direct = linear and m in ('default', 'Direct', 'legacy-solve_linear', 'legacy-optimize')
        if not numpy.isfinite(rn):
            raise Violation('unconverged-returned', f'{m}: returned {x.tolist()} whose residual is not finite', where='system:nan-residual:' + m)
        bound = tol if not lin_direct else max(tol, 1e3 * n * EPS * (numpy.linalg.norm(A) * numpy.linalg.norm(x) + numpy.linalg.norm(b)))
        if rn > bound * (1 + 1e-6) + slack:
            raise Violation('unconverged-returned', f'{m}: residual norm {rn:.3e} > tol {tol:.1e} at returned {x.tolist()} (linear={linear})', where='system:tolerance:' + m)
        # linear problems: independence of the initial guess
        if linear and case['cons'] != 'bool':
            try:
                x2 = numpy.asarray(run(dict(u=numpy.array(case['u0b']))))
            except (solver.SolverError, matrix.MatrixError):
                x2 = None
            if x2 is not None and abs(x2 - x).max() > 1e-6 * (1 + abs(x).max()) * max(1, numpy.linalg.cond(A)) * max(tol / 1e-10, 1) * 1e-2 + 1e2 * tol:
                raise Violation('initial-guess-dependence', f'{m}: {x.tolist()} vs {x2.tolist()}', where='system:guess:' + m)
        rec.label('outcome:returned', 'method:' + m, 'linear' if linear else 'nonlinear', 'cons:' + case['cons'])
        rec.nontrivial = not (linear and case['cons'] == 'none' and m in ('default', 'Direct'))
        # secondary operations
        if case['second'] == 'solve_constraints' and linear:
            try:
                out = S.solve_constraints(droptol=case['droptol'], arguments=args, constrain=cons)
            except (solver.SolverError, matrix.MatrixError):
                return
            except Exception as e:
                raise Violation('solve-constraints-raised', f'{type(e).__name__}: {str(e)[:300]}', where='solve_constraints:' + type(e).__name__)
            c = numpy.asarray(out['u'])
            Afree = A.copy()
            colmax = abs(Afree[free][:, :] if False else A).max(0)
            # rows/cols that are constrained beforehand do not take part
            Ared = A[numpy.ix_(free, free)]
            dropped = ~(abs(Ared) > case['droptol']).any(0) if Ared.size else numpy.zeros(0, bool)
            isnan = numpy.isnan(c[free])
            if not numpy.array_equal(isnan, dropped):
                raise Violation('solve-constraints-pattern', f'NaN pattern {isnan.tolist()} != columns below droptol {dropped.tolist()} (droptol={case["droptol"]}, A={Ared.tolist()})', where='solve_constraints:pattern')
            if pc.any() and not numpy.array_equal(c[pc], prescribed[pc]):
                raise Violation('constraint-violated', f'solve_constraints changed prescribed entries', where='solve_constraints:constraint')
            rec.label('solve_constraints')


def _energy(case, u):
    from nutils import function
    n = case['n']
    A = numpy.array(case['A']); A = A + numpy.diag(abs(A).sum(1) + 1); A = (A + A.T) / 2
    b = numpy.array(case['b']); t = case['terms']
    val = .5 * (u[:, None] * function.Array.cast(A) * u[None, :]).sum(-1).sum(-1) - (b * u).sum()
    if t['cubic']: val = val + t['cubic'] * .25 * (u ** 4).sum()
    if t['exp']: val = val + t['exp'] * numpy.exp(u).sum()
    if t['log']: val = val + t['log'] * (u * numpy.log(u) - u).sum()
    if t['sqrt']: val = val + t['sqrt'] * (2 / 3.) * (u ** 1.5).sum()
    return val


# ---- time stepping ----------------------------------------------------------------------------------------

@st.composite
def step_cases(draw, tier):
    return dict(n=draw(st.integers(1, 3)), nsteps=draw(st.integers(1, 4)), dt=draw(st.sampled_from([.1, .5, 2., 10.])), k=draw(st.sampled_from([0., 1., 5.])), blowup=draw(st.booleans()),
                maxretry=draw(st.integers(0, 3)), u0=[draw(st.sampled_from([.5, 1., 2., -1., 3.])) for _ in range(3)], tol=draw(st.sampled_from([1e-10, 1e-8])),
                stiff=draw(st.sampled_from([0., 0., 10., 40.])), newton=draw(st.booleans()), maxiter=draw(st.sampled_from([8, 20])), dtmax=draw(st.sampled_from([None, None, .3, 1.2, 3.])))


def check_step(case, rec):
    from nutils import function, solver, matrix
    import treelog
    n = case['n']
    with warnings.catch_warnings(), treelog.set(treelog.NullLog()), numpy.errstate(all='ignore'):
        warnings.simplefilter('ignore')
        u = function.Argument('u', (n,)); u0 = function.Argument('u0', (n,)); dt = function.Argument('dt', ())
        # implicit Euler for u' = -u - k u^3 (+ log term that is undefined for u<=0 when blowup)
        res = (u - u0) / dt + u + case['k'] * u ** 3
        if case['blowup']:
            res = res + numpy.log(u) * 3
        if case.get('stiff'):
            res = res + case['stiff'] * numpy.log(u)      # a full step overshoots out of the domain of log, half steps converge: exercises the bisection fall-back
        if case.get('dtmax'):
            res = res + 0. * numpy.sqrt(case['dtmax'] - dt)      # the residual is NaN for time steps above dtmax: the step must fall back to halved steps until they fit
        S = solver.System([res], trial='u')
        args = dict(u=numpy.array(case['u0'][:n]))
        t = 0.
        for i in range(case['nsteps']):
            try:
                kw = dict(method=solver.Newton()) if case.get('newton') else {}
                new = S.step(arguments=args, suffix='0', timearg='t', timesteparg='dt', timestep=case['dt'], maxretry=case['maxretry'], tol=case['tol'], maxiter=case.get('maxiter', 20), **kw)
            except (solver.SolverError, matrix.MatrixError) as e:
                if case.get('dtmax') and not case.get('stiff') and not case['blowup'] and case['k'] == 0 and case['dt'] / 2 ** case['maxretry'] <= case['dtmax'] and all(v > 0 for v in case['u0'][:n]):
                    raise Violation('step-gave-up', f'step {i}: {type(e).__name__} although halving dt={case["dt"]} at most {case["maxretry"]} times reaches the admissible step {case["dtmax"]} of a linear decay problem', where='step:gave-up')
                rec.label('outcome:' + type(e).__name__); rec.nontrivial = True
                return
            except Exception as e:
                raise Violation('step-raised', f'{type(e).__name__}: {str(e)[:300]}', where='step:' + type(e).__name__)
            x = numpy.asarray(new['u'])
            if not numpy.isfinite(x).all():
                raise Violation('nonfinite-solution', f'step {i}: {x.tolist()}', where='step:nonfinite')
            # the returned state satisfies the equations of its own (possibly bisected) last sub-step
            r = numpy.asarray(function.eval(res, arguments=dict(u=new['u'], u0=new['u0'], dt=new['dt'])))
            if not numpy.isfinite(r).all() or numpy.linalg.norm(r) > case['tol'] * (1 + 1e-6) + 1e-12:
                raise Violation('unconverged-returned', f'step {i}: residual {r.tolist()} at returned state', where='step:tolerance')
            t += case['dt']
            if abs(float(new['t']) - t) > 1e-9 * (1 + abs(t)):
                raise Violation('time-bookkeeping', f'step {i}: t={new["t"]} expected {t} (last sub-step dt={new["dt"]}, t0={new["t0"]})', where='step:time')
            if abs(float(new['t0']) + float(new['dt']) - float(new['t'])) > 1e-9 * (1 + abs(t)):
                raise Violation('time-bookkeeping', f'step {i}: t0 + dt = {float(new["t0"]) + float(new["dt"])} but t = {new["t"]}', where='step:time0')
            if float(new['dt']) < case['dt'] * (1 - 1e-12): rec.label('step:bisected')
            args = new
        rec.label('outcome:returned'); rec.nontrivial = case['nsteps'] >= 2


# ---- systems with several unknowns ---------------------------------------------------------------------------------------------

@st.composite
def coupled_cases(draw, tier):
    n = draw(st.integers(1, 3))
    return dict(n=n, A=[draw(st.sampled_from(V)) for _ in range(n * n)], B=[draw(st.sampled_from(V)) for _ in range(n * n)], fa=[draw(st.sampled_from(V)) for _ in range(n)], fb=[draw(st.sampled_from(V)) for _ in range(n)],
                kab=draw(st.sampled_from([0., 0., .5, 1., -.5])), kba=draw(st.sampled_from([0., .5, 1.])), self_nl=draw(st.sampled_from([0., 0., .25])),
                method=draw(st.sampled_from(['default', 'Newton', 'LinesearchNewton', 'Direct', 'legacy-newton', 'solve_constraints'])), tol=draw(st.sampled_from([1e-10, 1e-8])),
                a0=[draw(st.sampled_from(V)) for _ in range(n)] if draw(st.booleans()) else None, cons=draw(st.sampled_from(['none', 'none', 'a-first'])))


def check_coupled(case, rec):
    """two unknown vectors a, b coupled through products of different unknowns (a*b): whatever is returned must make the TRUE residual small"""
    from nutils import function, solver, matrix
    import treelog
    n = case['n']
    A = numpy.array(case['A']).reshape(n, n); A = A + numpy.diag(abs(A).sum(1) + 2)
    B = numpy.array(case['B']).reshape(n, n); B = B + numpy.diag(abs(B).sum(1) + 2)
    fa = numpy.array(case['fa']); fb = numpy.array(case['fb'])
    kab, kba, snl = case['kab'], case['kba'], case['self_nl']
    def true_res(a, b):
        return numpy.concatenate([A @ a + kab * a * b + snl * a ** 3 - fa, B @ b + kba * a * b - fb])
    with warnings.catch_warnings(), treelog.set(treelog.NullLog()), numpy.errstate(all='ignore'):
        warnings.simplefilter('ignore')
        a = function.Argument('a', (n,)); b = function.Argument('b', (n,))
        ra = (function.Array.cast(A) * a[None, :]).sum(1) + kab * a * b + snl * a ** 3 - fa
        rb = (function.Array.cast(B) * b[None, :]).sum(1) + kba * a * b - fb
        linear = not (kab or kba or snl)
        S = solver.System([ra, rb], trial='a,b')
        args = {} if case['a0'] is None else dict(a=numpy.array(case['a0']))
        cons = {}
        prescribed = {}
        if case['cons'] == 'a-first':
            c = numpy.full(n, numpy.nan); c[0] = .75; cons = dict(a=c); prescribed = {0: .75}
        m = case['method']
        try:
            if m == 'default': sol = S.solve(arguments=args, constrain=cons, tol=case['tol'])
            elif m == 'Newton': sol = S.solve(arguments=args, constrain=cons, tol=case['tol'], method=solver.Newton(), maxiter=60)
            elif m == 'LinesearchNewton': sol = S.solve(arguments=args, constrain=cons, tol=case['tol'], method=solver.LinesearchNewton(), maxiter=60)
            elif m == 'Direct': sol = S.solve(arguments=args, constrain=cons, method=solver.Direct())
            elif m == 'solve_constraints':
                sol = S.solve_constraints(droptol=1e-12, arguments=args, constrain=cons)
                if not linear:
                    raise Violation('nonlinear-accepted', f'solve_constraints accepted a system that is nonlinear through a*b (kab={kab}, kba={kba}, self={snl})', where='coupled:solve_constraints')
                rec.label('coupled:solve_constraints'); rec.nontrivial = True
                return
            else:
                sol = solver.newton('a,b', [ra, rb], arguments=args, constrain=cons or None).solve(case['tol'], maxiter=60)
        except (solver.SolverError, matrix.MatrixError):
            rec.label('coupled:outcome:error'); rec.nontrivial = True
            return
        except ValueError as e:
            if 'not linear' in str(e) or 'strictly positive' in str(e):
                if m in ('Direct', 'solve_constraints') and linear:
                    raise Violation('solve-raised', f'{m} rejected a linear two-field system: {e}', where='coupled:rejected-linear')
                rec.label('coupled:outcome:rejected'); return
            raise Violation('solve-raised', f'{m}: ValueError: {str(e)[:200]}', where='coupled:ValueError')
        except Exception as e:
            raise Violation('solve-raised', f'{m}: {type(e).__name__}: {str(e)[:200]}', where='coupled:' + type(e).__name__)
        if m == 'Direct' and not linear:
            raise Violation('nonlinear-accepted', f'the Direct method solved a system that is nonlinear through products of different unknowns (kab={kab}, kba={kba}, self={snl})', where='coupled:direct-nonlinear')
        av, bv = numpy.asarray(sol['a']), numpy.asarray(sol['b'])
        if not (numpy.isfinite(av).all() and numpy.isfinite(bv).all()):
            raise Violation('nonfinite-solution', f'{m}: {av.tolist()} {bv.tolist()}', where='coupled:nonfinite')
        for i, v in prescribed.items():
            if av[i] != v: raise Violation('constraint-violated', f'{m}: a[{i}]={av[i]} prescribed {v}', where='coupled:constraint')
        r = true_res(av, bv)
        free = numpy.ones(2 * n, dtype=bool)
        for i in prescribed: free[i] = False
        rn = numpy.linalg.norm(r[free])
        tol = case['tol'] if m != 'Direct' else 1e-9
        if rn > tol * 1.01 + 1e-11 * (1 + abs(fa).max() + abs(fb).max()):
            raise Violation('unconverged-returned', f'{m} on the two-field system (kab={kab}, kba={kba}, self={snl}, linear={linear}) returned a={av.tolist()} b={bv.tolist()} whose true residual norm is {rn:.3e} (tol {tol})', where='coupled:residual:' + m)
    rec.nontrivial = not linear
    rec.label('coupled:' + m, 'coupled:linear' if linear else 'coupled:cross-nonlinear' if not snl else 'coupled:self-nonlinear')


# ---- Topology.project: constraint vectors built boundary by boundary ----------------------------------------------------------------

@st.composite
def project_cases(draw, tier):
    steps = [dict(side=draw(st.sampled_from(['left', 'right', 'top', 'bottom'])), f=draw(st.sampled_from(['zero', 'zero', 'one', 'linear', 'x', 'zero-expr'])), ptype=draw(st.sampled_from(['lsqr', 'lsqr', 'lsqr', 'convolute', 'nodal'])))
             for _ in range(draw(st.integers(1, 4)))]
    return dict(n=[draw(st.integers(1, 3)), draw(st.integers(1, 3))], degree=draw(st.integers(1, 2)), steps=steps, vector=draw(st.booleans()))


def check_project(case, rec):
    """a constraint vector is built by projecting onto one boundary after the other, each call receiving the previous vector: entries prescribed
    earlier keep their value exactly, entries of functions without support on the boundary stay NaN, and (std basis, function in the space)
    the new entries are the nodal values of the function"""
    from nutils import mesh, function
    import treelog
    with warnings.catch_warnings(), treelog.set(treelog.NullLog()):
        warnings.simplefilter('ignore')
        topo, x = mesh.rectilinear([numpy.linspace(0, 1, k + 1) for k in case['n']])
        basis = topo.basis('std', degree=case['degree'])
        if case['vector']:
            onto = basis.vector(2)
        else:
            onto = basis
        nd = len(onto)
        cons = None
        history = []
        for si, st_ in enumerate(case['steps']):
            fs = {'zero': 0., 'one': 1., 'linear': 1 + x[0] + 2 * x[1], 'x': x[0], 'zero-expr': x[0] * 0}[st_['f']]
            fun = function.Array.cast(fs)
            if case['vector']: fun = numpy.stack([fun, -fun])
            bnd = topo.boundary[st_['side']]
            kw = dict(onto=onto, geometry=x, ptype=st_['ptype'], degree=2 * case['degree'])
            if st_['ptype'] == 'nodal': kw.pop('degree')
            try:
                new = bnd.project(fun, constrain=consobj, **kw) if cons is not None else bnd.project(fun, **kw)
            except NotImplementedError:
                raise Discard('ptype-not-available')
            except Exception as e:
                if st_['ptype'] != 'lsqr': raise Discard('ptype-not-applicable')
                raise Violation('project-raised', f'step {si} {st_}: {type(e).__name__}: {str(e)[:200]}', where='project:' + type(e).__name__)
            consobj_new = new
            new = numpy.array(new, dtype=float)      # a copy for the comparisons; the NanVec itself is handed to the next call
            if new.shape != (nd,):
                raise Violation('project-shape', f'{new.shape} != ({nd},)', where='project:shape')
            # support on this boundary: functions that do not vanish identically there
            vals = numpy.asarray(bnd.sample('bezier', 3).eval(onto))
            vals = abs(vals).reshape(len(vals), nd, -1).max(2).max(0)
            supp = vals > 1e-12
            if cons is not None:
                had = ~numpy.isnan(cons)
                if not numpy.array_equal(new[had], cons[had]):
                    bad = numpy.nonzero(had & ~(new == cons))[0]
                    raise Violation('constraint-overwritten', f'step {si} {st_} after {history}: entries {bad.tolist()} prescribed earlier changed from {cons[bad].tolist()} to {new[bad].tolist()}', where='project:overwritten:' + st_['ptype'])
            else:
                had = numpy.zeros(nd, dtype=bool)
            stale = ~supp & ~had & ~numpy.isnan(new)
            if stale.any():
                raise Violation('constraint-invented', f'step {si} {st_}: entries {numpy.nonzero(stale)[0].tolist()} of functions without support on the boundary were prescribed: {new[stale].tolist()}', where='project:invented')
            missing = supp & numpy.isnan(new)
            if missing.any() and st_['ptype'] == 'lsqr':
                raise Violation('constraint-missing', f'step {si} {st_}: functions {numpy.nonzero(missing)[0].tolist()} with support on the boundary were left undetermined', where='project:missing')
            # value check: the projected function lies in the trace space (degree >= 1, functions of degree <= 1): the boundary trace of the constrained field equals it
            if st_['ptype'] == 'lsqr':
                newly = supp & ~had
                trial = numpy.where(numpy.isnan(new), 0., new)
                field = (onto * trial[(slice(None),) + (None,) * (onto.ndim - 1)]).sum(0) if onto.ndim > 1 else onto @ trial
                if not (had & supp).any():      # no earlier boundary shares dofs with this one: the trace must reproduce the function
                    err = numpy.asarray(bnd.sample('gauss', 2).eval(field - fun))
                    if abs(err).max() > 1e-9:
                        raise Violation('projection-wrong', f'step {si} {st_}: trace of the constrained field differs from the projected function by {abs(err).max():.3e}', where='project:value')
            cons = new; consobj = consobj_new
            history.append([st_['side'], st_['f'], st_['ptype']])
    rec.nontrivial = len(case['steps']) >= 2
    rec.label('project:steps=%d' % len(case['steps']), *('project:' + s_['ptype'] for s_ in case['steps']), *(['project:zero-after-nonzero'] if any(a['f'] in ('one', 'linear', 'x') and b['f'].startswith('zero') for a, b in zip(case['steps'], case['steps'][1:])) else []))



# ---- System.solve_constraints: which entries are determined, and by what -------------------------------------------------------

@st.composite
def constraints_cases(draw, tier):
    n = draw(st.integers(2, 5))
    diag = [draw(st.sampled_from([1., 2., -1.5, 3.])) for _ in range(n)]
    off = [[draw(st.sampled_from([0., 0., .25, -.5, .125])) for _ in range(n)] for _ in range(n)]
    dropped = sorted({draw(st.integers(0, n - 1)) for _ in range(draw(st.integers(0, n - 1)))})
    eps, droptol = draw(st.sampled_from([(0., 0.), (0., 1e-10), (1e-13, 1e-10), (1e-14, 1e-12), (1e-11, 1e-9)]))
    return dict(n=n, diag=diag, off=off, dropped=dropped, eps=eps, droptol=droptol, b=[draw(st.sampled_from(V)) for _ in range(n)], symmetric=draw(st.booleans()),
                guess=[draw(st.sampled_from(V)) for _ in range(n)] if draw(st.booleans()) else None, backend=draw(st.sampled_from(['numpy', 'scipy'])))


def check_constraints(case, rec):
    from nutils import function, solver, matrix
    n = case['n']
    A = numpy.array(case['off'], dtype=float)
    if case['symmetric']: A = .5 * (A + A.T)
    A[numpy.arange(n), numpy.arange(n)] = numpy.array(case['diag']) * (1 + abs(A).sum(1))      # dominant diagonal: every principal subsystem is regular
    if case['symmetric']: A = .5 * (A + A.T) + numpy.diag(abs(A).sum(1) * numpy.sign(case['diag']))
    for j in case['dropped']:
        A[:, j] = case['eps']      # unknown j is felt by the equations at most through entries of size eps <= droptol
        if case['symmetric']: A[j, :] = case['eps']
    b = numpy.array(case['b'], dtype=float)
    u = function.Argument('u', (n,))
    be = case['backend'] if case['backend'] in get_backends() else 'numpy'
    with warnings.catch_warnings(), matrix.backend(be):
        warnings.simplefilter('ignore')
        if case['symmetric']:
            system = solver.System(.5 * (u @ (function.Array.cast(A) @ u)) - b @ u, trial='u')
        else:
            v = function.Argument('v', (n,))
            system = solver.System(v @ (function.Array.cast(A) @ u - b), trial='u', test='v')
        if not system.is_linear:
            raise Violation('constraints-linearity', f'a linear system (n={n}) is not recognised as linear', where='constraints:is_linear')
        descr = f'solve_constraints(droptol={case["droptol"]}) of the {"symmetric" if case["symmetric"] else "two-argument"} system with matrix {A.tolist()} rhs {b.tolist()} guess {case["guess"]}'
        kw = dict(arguments={'u': numpy.array(case['guess'], dtype=float)}) if case['guess'] is not None else {}
        try:
            cons = system.solve_constraints(droptol=case['droptol'], **kw)
        except Exception as e:
            raise Violation('constraints-raised', f'{descr}: {type(e).__name__}: {str(e)[:200]} (every subsystem of the determined unknowns is regular)', where='constraints:raised:' + type(e).__name__)
    c = numpy.asarray(cons['u'], dtype=float)
    free = abs(A).max(0) > case['droptol']
    if (numpy.isnan(c) != ~free).any():
        raise Violation('constraints-pattern', f'{descr}: returned {c.tolist()}; the unknowns whose column exceeds the drop tolerance are {numpy.nonzero(free)[0].tolist()}: exactly the others are to be NaN', where='constraints:pattern')
    if free.any():
        want = numpy.linalg.solve(A[numpy.ix_(free, free)], b[free])
        if not numpy.allclose(c[free], want, rtol=1e-8, atol=1e-8 * (1 + abs(want).max())):
            raise Violation('constraints-value', f'{descr}: determined entries {c[free].tolist()}, the subsystem of the determined unknowns gives {want.tolist()}', where='constraints:value')
    rec.nontrivial = bool(case['dropped']) and bool(free.any())
    rec.label('constraints:' + ('symmetric' if case['symmetric'] else 'two-argument'), 'constraints-dropped:%d' % len(case['dropped']), 'constraints-eps:%g' % case['eps'], *(['constraints:guess'] if case['guess'] is not None else []))


SUBS = [Sub('matrix', matrix_cases, check_matrix, {'quick': 2500, 'thorough': 40000}, weight=3),
        Sub('system', system_cases, check_system, {'quick': 150, 'thorough': 3000}, weight=3, timeout=120),
        Sub('step', step_cases, check_step, {'quick': 120, 'thorough': 2000}, weight=1, timeout=120),
        Sub('coupled', coupled_cases, check_coupled, {'quick': 100, 'thorough': 2000}, weight=1, timeout=120),
        Sub('project', project_cases, check_project, {'quick': 60, 'thorough': 1200}, weight=1, timeout=120),
        Sub('constraints', constraints_cases, check_constraints, {'quick': 150, 'thorough': 3000}, weight=1, timeout=120)]

def _uncertified_zero_tol(case, v):
    # atol=rtol=0 with the (default) arnoldi solver: the iterate at which the iteration stagnated is returned unchecked
    return case.get('atol') == 0 and case.get('rtol') == 0 and case.get('solver') in ('arnoldi', 'default')


TRIGGERS = {'arnoldi-zero-tolerance-uncertified': _uncertified_zero_tol}

MANIFEST = dict(
    category='exploration',
    technique='property-based testing (Hypothesis) with an outcome-based validity oracle: generated linear systems/constraints/tolerances/solvers and generated nonlinear systems; returned solutions are certified by dense recomputation, raised outcomes by exception family',
    text='Generated linear systems (well/ill conditioned, singular, complex), constraint patterns, tolerances and every solver/preconditioner of the available backends, and generated linear/nonlinear solver.System problems '
         'with all solution methods, legacy wrappers, solve_constraints and step sequences: a returned solution must be finite, honour constraints exactly and meet the requested tolerance when recomputed densely by the harness; '
         'anything else must be a MatrixError/SolverError. Held on everything explored; n<=8.',
    note='Trusted: dense numpy recomputation with stated rounding slack; Hypothesis. MKL backend absent. Pseudotime/thetamethod not generated in this version.',
)
