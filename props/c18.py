"""C18 — Disk memoisation is transparent and crash-tolerant (DESIGN.md §4 C18)."""
import warnings
import os, sys, json, pickle, shutil, subprocess, tempfile, itertools, time, numpy
from hypothesis import strategies as st
from vlib.core import Sub, Violation, Discard, ROOT

PROPERTY = 'C18'
LEVEL = 'fault_enumeration'
BUDGET = {'quick': 45, 'thorough': 450}
SHARDS = {'quick': 8, 'thorough': 16}
RULE = ('cases: (prefix) a memoised function with generated payload (nested values incl. numpy arrays from bytes to ~1 MB), argument spelling and log messages is called '
        'once with caching enabled; the entry bytes B are then cut at EVERY prefix length k in 0..|B| (exhaustive for |B|<=4 KB, else all k within 512 bytes of either end and of '
        'every 64 KiB pickle frame boundary plus a stride) and the call repeated: value equal to the uncached value, wrapped function executed exactly once iff k<|B|, log replay '
        'equal to the original log, entry loadable afterwards; also stale tails (B + garbage) and torn overwrites. (recursion) generated histories on a Recursion subclass (length 1-3, '
        'finite/infinite, raising at an index): consume k items then abandon, run to the end, raise inside, truncate/delete a cache file, run uncached; every run equals the uncached '
        'sequence and resume() receives exactly the last min(length, index) items. (concurrent) 2-5 processes request one entry: same value, executions never overlap, function ran once; (concurrent_recursion) 2-4 processes, released together by a barrier after import, iterate one Recursion for 2-5 items each: every process gets the uncached sequence and no item is being computed by two processes at once. '
        'non-trivial: crash point strictly inside the pickle (0<k<|B|); histories with >=1 truncation/deletion and >=1 resume; distinct = (payload, k) / case hash')
ASSUMPTIONS = ['a killed writer leaves a prefix of the bytes of a single pickle.dump (file-content level crash model); OS-level write reordering is not modelled',
               'concurrent interleavings are sampled with harness-injected start offsets, not enumerated']


# ---- payloads ------------------------------------------------------------------------------------

@st.composite
def payload(draw, depth=2):
    kind = draw(st.sampled_from(['int', 'float', 'str', 'bytes', 'none', 'tuple', 'list', 'dict', 'array', 'array', 'bigarray'] if depth else ['int', 'float', 'str', 'bytes', 'none', 'array']))
    if kind == 'int': return dict(k=kind, v=draw(st.integers(-10 ** 12, 10 ** 12)))
    if kind == 'float': return dict(k=kind, v=draw(st.sampled_from([0.0, 1.5, -2.25, 1e300, 3.141592653589793])))
    if kind == 'str': return dict(k=kind, v=draw(st.text(max_size=20)))
    if kind == 'bytes': return dict(k=kind, n=draw(st.integers(0, 300)), seed=draw(st.integers(0, 255)))
    if kind == 'none': return dict(k=kind)
    if kind == 'array': return dict(k=kind, dtype=draw(st.sampled_from(['float64', 'int64', 'bool', 'complex128', 'int8'])), shape=draw(st.sampled_from([[], [0], [3], [2, 3], [10, 10], [100]])), seed=draw(st.integers(0, 255)))
    if kind == 'bigarray': return dict(k='array', dtype='float64', shape=[draw(st.sampled_from([1000, 9000, 20000, 70000, 130000]))], seed=draw(st.integers(0, 255)))
    items = [draw(payload(depth - 1)) for _ in range(draw(st.integers(0, 3)))]
    return dict(k=kind, items=items)


def build_payload(p):
    k = p['k']
    if k in ('int', 'float', 'str'): return p['v']
    if k == 'bytes': return bytes((p['seed'] + 7 * i) % 256 for i in range(p['n']))
    if k == 'none': return None
    if k == 'array':
        n = int(numpy.prod(p['shape'])) if p['shape'] else 1
        a = ((numpy.arange(n) * 2654435761 + p['seed']) % 251).astype(p['dtype']).reshape(p['shape'])
        return a
    items = [build_payload(i) for i in p['items']]
    if k == 'tuple': return tuple(items)
    if k == 'list': return items
    return {str(i): v for i, v in enumerate(items)}


def same(a, b):
    if type(a) is not type(b): return False
    if isinstance(a, numpy.ndarray):
        return a.dtype == b.dtype and a.shape == b.shape and a.tobytes() == b.tobytes()
    if isinstance(a, (tuple, list)):
        return len(a) == len(b) and all(same(x, y) for x, y in zip(a, b))
    if isinstance(a, dict):
        return list(a) == list(b) and all(same(a[k], b[k]) for k in a)
    if isinstance(a, float):
        return repr(a) == repr(b)
    return a == b


LEVELS = ['debug', 'info', 'user', 'warning', 'error']


@st.composite
def prefix_cases(draw, tier):
    p = draw(payload())
    msgs = [[draw(st.sampled_from(LEVELS)), draw(st.sampled_from(['m0', 'hello', 'x' * 50, 'µ']))] for _ in range(draw(st.integers(0, 3)))]
    return dict(payload=p, msgs=msgs, ctx=draw(st.booleans()), spelling=draw(st.sampled_from(['pos', 'kw', 'default'])), maxpoints=300 if tier == 'quick' else 3000,
                pick=draw(st.integers(0, 10 ** 6)))


COUNTER = {'n': 0}


def make_function():
    import treelog
    from nutils import cache

    @cache.function(version=3)
    def compute(spec, msgs, ctx=False, extra=1):
        COUNTER['n'] += 1
        spec = json.loads(spec); msgs = json.loads(msgs)
        def emit():
            for lvl, m in msgs:
                getattr(treelog, lvl)(m)
        if ctx:
            with treelog.context('inner'):
                emit()
        else:
            emit()
        return build_payload(spec)
    return compute


def recorded(rec):
    """log output as a list of (context path, message, level); empty contexts are not output"""
    out = []; ctx = []
    for m in rec._messages:
        if m[0] == 'pushcontext': ctx.append(m[1])
        elif m[0] == 'popcontext': ctx.pop()
        elif m[0] == 'recontext': ctx[-1] = m[1]
        elif m[0] == 'write':
            if isinstance(m[1], str) and m[1].startswith('[cache.'): continue
            out.append((tuple(ctx), m[1], str(m[2])))
        else:
            out.append((tuple(ctx),) + tuple(str(x) for x in m))
    return out


def call(f, case, cachedir):
    import treelog
    from nutils import cache
    spec, msgs = json.dumps(case['payload']), json.dumps(case['msgs'])
    rec = treelog.RecordLog(simplify=False)
    with treelog.set(rec):
        if cachedir is None:
            with cache.disable():
                v = f(spec, msgs, case['ctx'])
        else:
            with cache.enable(cachedir):
                if case['spelling'] == 'pos': v = f(spec, msgs, case['ctx'], 1)
                elif case['spelling'] == 'kw': v = f(msgs=msgs, spec=spec, extra=1, ctx=case['ctx'])
                else: v = f(spec, msgs, case['ctx'])
    return v, recorded(rec)


def write_boundaries(B):
    """offsets at which pickle hands over from one write() call to the next while dumping this entry (frames, out-of-band buffers): a writer killed
    between two writes leaves exactly such a prefix. Found by re-dumping the loaded entry into a recording file object; [] if that does not reproduce B."""
    class Recorder:
        def __init__(self): self.chunks = []
        def write(self, b): self.chunks.append(bytes(b)); return len(b)
    try:
        r = Recorder()
        pickle.dump(pickle.loads(B), r)
        if b''.join(r.chunks) != B: return []
        out = []; o = 0
        for c in r.chunks[:-1]:
            o += len(c); out.append(o)
        return out
    except Exception:
        return []


def crash_points(n, maxpoints, pick, must=()):
    pts, exhaustive = _crash_points(n, maxpoints, pick)
    extra = {q for b in must for q in (b - 1, b, b + 1) if 0 <= q <= n}
    return sorted(set(pts) | extra), exhaustive


def _crash_points(n, maxpoints, pick):
    if n <= 4096 and n + 1 <= maxpoints:
        return list(range(n + 1)), True
    pts = set(range(0, min(n, 512) + 1)) | set(range(max(0, n - 512), n + 1))
    for fb in range(65536, n, 65536):
        pts |= set(range(max(0, fb - 64), min(n, fb + 64) + 1))
    pts = sorted(pts)
    if len(pts) > maxpoints:
        # keep both ends dense, thin out the rest deterministically
        keep = set(pts[:maxpoints // 3]) | set(pts[-maxpoints // 3:])
        rest = [p for p in pts if p not in keep]
        step = max(1, len(rest) // (maxpoints // 3))
        keep |= set(rest[pick % step::step])
        pts = sorted(keep)
    stride = max(1, n // 50)
    pts = sorted(set(pts) | set(range(pick % stride, n, stride)))
    return pts, False


def check_prefix(case, rec):
    f = make_function()
    want, wantlog = call(f, case, None)
    d = tempfile.mkdtemp(prefix='c18-')
    try:
        COUNTER['n'] = 0
        v, l = call(f, case, d)
        if not same(v, want) or l != wantlog or COUNTER['n'] != 1:
            raise Violation('first-call', f'value equal={same(v, want)} log equal={l == wantlog} executions={COUNTER["n"]}', where='first-call')
        files = [os.path.join(d, x) for x in os.listdir(d)]
        if len(files) != 1:
            raise Violation('cache-layout', f'{len(files)} files after one call', where='layout')
        path = files[0]
        B = open(path, 'rb').read()
        # a second call with another spelling hits the same entry
        COUNTER['n'] = 0
        for sp in ('pos', 'kw', 'default'):
            v, l = call(f, dict(case, spelling=sp), d)
            if COUNTER['n'] != 0 or not same(v, want) or l != wantlog:
                raise Violation('cache-miss-or-wrong-hit', f'spelling {sp}: executions={COUNTER["n"]} value equal={same(v, want)} log equal={l == wantlog} ({l} vs {wantlog})', where='hit:' + sp)
        wb = write_boundaries(B)
        pts, exhaustive = crash_points(len(B), case['maxpoints'], case['pick'], must=wb)
        if wb: rec.count('write_boundaries_cut', len(wb))
        inner = 0
        for k in pts:
            with open(path, 'wb') as fh:
                fh.write(B[:k])
            COUNTER['n'] = 0
            try:
                v, l = call(f, case, d)
            except Exception as e:
                raise Violation('crash-not-tolerated', f'entry cut at byte {k} of {len(B)}: call raised {type(e).__name__}: {str(e)[:200]}', where='prefix:' + type(e).__name__)
            expect_runs = 0 if k == len(B) else 1
            if not same(v, want):
                raise Violation('wrong-value', f'entry cut at byte {k} of {len(B)}: wrong value returned', where='prefix:value')
            if COUNTER['n'] != expect_runs:
                raise Violation('execution-count', f'entry cut at byte {k} of {len(B)}: function executed {COUNTER["n"]} times, expected {expect_runs}', where='prefix:count')
            if l != wantlog:
                raise Violation('log-replay', f'entry cut at byte {k} of {len(B)}: log {l} != {wantlog}', where='prefix:log')
            after = open(path, 'rb').read()
            try:
                stored = pickle.loads(after)
            except Exception as e:
                raise Violation('entry-not-repaired', f'after recovery from cut {k} the entry does not load: {type(e).__name__}', where='prefix:repair')
            if 0 < k < len(B):
                inner += 1
        # stale tail / torn overwrite on top of a longer earlier state
        for tail in (b'\x00' * 10, B[::-1][:50], B):
            with open(path, 'wb') as fh:
                fh.write(B + tail)
            COUNTER['n'] = 0
            v, l = call(f, case, d)
            if not same(v, want) or COUNTER['n'] != 0 or l != wantlog:
                raise Violation('stale-tail', f'entry followed by {len(tail)} stale bytes: executions={COUNTER["n"]} value equal={same(v, want)}', where='tail')
        # torn overwrite: an earlier killed write left B[:j]; the rewrite is killed at byte k < j: file = B[:k] + B[k:j] = B[:j] (a prefix again, covered above).
        # Arbitrary garbage is outside the crash model of the property and is not injected.
    finally:
        shutil.rmtree(d, ignore_errors=True)
    rec.nontrivial = inner > 0
    rec.key = None
    rec.label('bytes<=%d' % (10 ** len(str(len(B)))), 'exhaustive' if exhaustive else 'sampled')
    rec.count('crash_points_total', len(pts))
    rec.count('crash_points_inside_pickle', inner)
    rec.label('crashpoints:%d' % (len(pts) // 100 * 100))


# ---- recursion histories -----------------------------------------------------------------------------

STATE = {'fail_at': None, 'resumes': [], 'calls': 0}


def make_recursion():
    import treelog
    from nutils import cache

    class Seq(cache.Recursion, length=2):
        def __init__(self, L, n, a, b):
            self.L, self.n, self.a, self.b = L, n, a, b

        def resume_index(self, history, index):
            STATE['resumes'].append((index, list(history)))
            return self.resume(history)

        def resume(self, history):
            hist = list(history)
            i = STATE['resumes'][-1][0]
            while self.n is None or i < self.n:
                if STATE['fail_at'] is not None and i == STATE['fail_at']:
                    raise RuntimeError('injected failure at item %d' % i)
                prev = hist[-self.L:] if self.L else []
                value = (self.a * i + self.b + 3 * sum(prev)) % 1000003
                treelog.info('item %d' % i)
                STATE['calls'] += 1
                yield value
                hist = (hist + [value])[-self.L:] if self.L else []
                i += 1
            treelog.info('closing after %d' % i)      # logged between the last item and exhaustion: part of the original call's output
    return Seq


def truth(L, n, a, b, count):
    out = []
    i = 0
    while (n is None or i < n) and i < count:
        prev = out[-L:] if L else []
        out.append((a * i + b + 3 * sum(prev)) % 1000003)
        i += 1
    return out


@st.composite
def recursion_cases(draw, tier):
    L = draw(st.integers(1, 3))
    n = draw(st.sampled_from([None, None, 0, 1, 3, 6]))
    steps = []
    for _ in range(draw(st.integers(2, 6 if tier == 'quick' else 20))):
        kind = draw(st.sampled_from(['consume', 'consume', 'complete', 'raise', 'truncate', 'delete', 'uncached']))
        steps.append(dict(kind=kind, k=draw(st.integers(0, 8)), j=draw(st.integers(0, 8)), b=draw(st.integers(0, 400))))
    return dict(L=L, n=n, a=draw(st.integers(1, 50)), b=draw(st.integers(0, 50)), steps=steps)


def check_recursion(case, rec):
    import treelog
    from nutils import cache
    Seq = make_recursion()
    # the class attribute `length` is what the cache uses for the history it hands to resume
    Seq.length = case['L']
    L, n = case['L'], case['n']
    d = tempfile.mkdtemp(prefix='c18r-')
    ntrunc = nresume = 0
    try:
        for si, s in enumerate(case['steps']):
            kind = s['kind']
            seq = Seq(L, n, case['a'], case['b'])
            if kind in ('consume', 'complete', 'raise', 'uncached'):
                k = s['k'] if kind != 'complete' else 12
                STATE['fail_at'] = s['j'] if kind == 'raise' else None
                STATE['resumes'] = []
                want = truth(L, n, case['a'], case['b'], k)
                reclog = treelog.RecordLog(simplify=False)
                got = []
                raised = None
                with treelog.set(reclog):
                    ctx = cache.disable() if kind == 'uncached' else cache.enable(d)
                    with ctx:
                        try:
                            for v in itertools.islice(seq, k):
                                got.append(v)
                        except RuntimeError as e:
                            if 'injected failure' not in str(e): raise
                            raised = e
                STATE['fail_at'] = None
                if raised is not None:
                    # items before the failure must be right; the failure index must not be below what the truth allows
                    if got != want[:len(got)]:
                        raise Violation('wrong-sequence', f'step {si} {kind}: {got} != {want[:len(got)]} before injected failure', where='recursion:' + kind)
                    continue
                if got != want:
                    raise Violation('wrong-sequence', f'step {si} {kind} k={k}: {got} != {want} (L={L} n={n})', where='recursion:' + kind)
                logged = [m[1] for m in reclog._messages if m[0] == 'write' and isinstance(m[1], str) and m[1].startswith(('item ', 'closing '))]
                exhausted = n is not None and k > n      # the consumer asked for more than there is: the generator ran to its end
                expected_log = ['item %d' % i for i in range(len(want))] + (['closing after %d' % n] if exhausted else [])
                if logged != expected_log:
                    raise Violation('log-replay', f'step {si} {kind} k={k} n={n}: log {logged}, the uncached iteration logs {expected_log}', where='recursion:log' + (':closing' if logged[:len(want)] == expected_log[:len(want)] else ''))
                if exhausted: rec.label('exhausted-with-closing-log')
                for index, hist in STATE['resumes']:
                    full = truth(L, n, case['a'], case['b'], index)
                    if kind != 'uncached' and hist != full[max(0, index - L):index]:
                        raise Violation('wrong-history', f'step {si}: resume at index {index} got history {hist}, expected {full[max(0, index - L):index]}', where='recursion:history')
                    if index > 0: nresume += 1
            else:
                sub = [os.path.join(d, x) for x in os.listdir(d)] if os.path.isdir(d) else []
                if not sub: continue
                files = sorted(os.listdir(sub[0]))
                if not files: continue
                path = os.path.join(sub[0], files[s['j'] % len(files)])
                if kind == 'delete':
                    os.unlink(path)
                elif kind == 'truncate':
                    data = open(path, 'rb').read()
                    open(path, 'wb').write(data[:s['b'] % (len(data) + 1)])
                else:
                    data = open(path, 'rb').read()
                    cut = s['b'] % (len(data) + 1)
                    open(path, 'wb').write(data[:cut] + b'\xff' * 7)
                ntrunc += 1
    finally:
        shutil.rmtree(d, ignore_errors=True)
    rec.nontrivial = ntrunc >= 1 and nresume >= 1
    rec.label('L=%d' % L, 'finite' if n is not None else 'infinite')


# ---- concurrency ------------------------------------------------------------------------------------------

CHILD = r'''
import sys, os, time, json, warnings
warnings.filterwarnings('ignore')
src = %r
if src: sys.path.insert(0, src)
from nutils import cache
logpath, cachedir, delay, ident, work = sys.argv[1], sys.argv[2], float(sys.argv[3]), sys.argv[4], float(sys.argv[5])
failmode = sys.argv[6] if len(sys.argv) > 6 else 'none'
@cache.function(version=1)
def slow(x):
    fd = os.open(logpath, os.O_WRONLY | os.O_APPEND | os.O_CREAT)
    os.write(fd, ('enter %%s %%r\n' %% (ident, time.time())).encode())
    time.sleep(work)
    os.write(fd, ('exit %%s %%r\n' %% (ident, time.time())).encode())
    os.close(fd)
    if failmode != 'none':
        try:
            os.close(os.open(logpath + '.failed', os.O_WRONLY | os.O_CREAT | os.O_EXCL))
        except FileExistsError:
            pass
        else:      # the first execution fails (once): the entry stays unwritten and the next party has to compute it
            if failmode == 'kill': os._exit(9)
            raise RuntimeError('injected failure of the first execution')
    return [x, 'value', list(range(100))]
slow.__module__ = 'c18child'
time.sleep(delay)
with cache.enable(cachedir):
    v = slow(7)
print(json.dumps(v))
'''


@st.composite
def concurrent_cases(draw, tier):
    n = draw(st.sampled_from([2, 3, 3, 4, 5]))
    return dict(delays=[draw(st.sampled_from([0.0, 0.0, 0.01, 0.03, 0.06, 0.1])) for _ in range(n)], work=draw(st.sampled_from([0.05, 0.1, 0.2])), fail=draw(st.sampled_from(['none', 'raise', 'raise', 'kill'])))


def check_concurrent(case, rec):
    d = tempfile.mkdtemp(prefix='c18c-')
    try:
        logpath = os.path.join(d, 'log.txt')
        cachedir = os.path.join(d, 'cache')
        code = CHILD % os.environ.get('VERIF_NUTILS_SRC', '')
        fail = case.get('fail', 'none')
        procs = [subprocess.Popen([sys.executable, '-c', code, logpath, cachedir, str(dl), str(i), str(case['work']), fail], stdout=subprocess.PIPE, stderr=subprocess.PIPE, text=True)
                 for i, dl in enumerate(case['delays'])]
        outs = []
        failed = 0
        for p in procs:
            o, e = p.communicate(timeout=120)
            if p.returncode != 0:
                if fail != 'none' and (p.returncode == 9 or 'injected failure' in e):
                    failed += 1; continue      # the party whose execution was made to fail
                raise Violation('concurrent-caller-failed', f'rc={p.returncode}: {e[-500:]}', where='concurrent:failed')
            outs.append(json.loads(o.strip().splitlines()[-1]))
        if fail != 'none' and failed != 1:
            raise Violation('concurrent-caller-failed', f'{failed} callers failed, exactly the first execution was made to fail ({fail})', where='concurrent:failed-count')
        want = [7, 'value', list(range(100))]
        if any(o != want for o in outs):
            raise Violation('concurrent-wrong-value', f'{outs}', where='concurrent:value')
        events = [l.split() for l in open(logpath).read().splitlines()]
        depth = 0
        for ev in events:
            depth += 1 if ev[0] == 'enter' else -1
            if depth > 1:
                raise Violation('concurrent-overlap', f'two executions overlap: {events}', where='concurrent:overlap')
        runs = sum(1 for ev in events if ev[0] == 'enter')
        if runs != (1 if fail == 'none' else 2):
            raise Violation('concurrent-executed-more-than-once', f'function executed {runs} times for one entry (first execution {"failed: " + fail if fail != "none" else "succeeded"}): {events}', where='concurrent:count')
    finally:
        shutil.rmtree(d, ignore_errors=True)
    rec.nontrivial = True
    rec.label('nproc=%d' % len(case['delays']), 'first-execution:' + case.get('fail', 'none'))


RCHILD = r'''
import sys, os, time, json, warnings, itertools
warnings.filterwarnings('ignore')
src = %r
if src: sys.path.insert(0, src)
from nutils import cache
logpath, cachedir, delay, ident, work, nitems, nproc = sys.argv[1], sys.argv[2], float(sys.argv[3]), sys.argv[4], float(sys.argv[5]), int(sys.argv[6]), int(sys.argv[7])
def event(*a):
    fd = os.open(logpath, os.O_WRONLY | os.O_APPEND | os.O_CREAT)
    os.write(fd, (' '.join(map(str, a)) + '\n').encode())
    os.close(fd)
class R(cache.Recursion, length=2):
    def __init__(self, offset):
        self.offset = offset
    def resume_index(self, history, index):
        a, b = ([self.offset, self.offset + 1] + list(history))[-2:] if index else (None, None)
        for i in itertools.count(index):
            event('enter', i, ident)
            time.sleep(work)
            v = self.offset + i if i < 2 else a + b
            a, b = b, v
            event('exit', i, ident)
            yield v
R.__module__ = 'c18rchild'
# barrier: start together once every process has finished importing
open(os.path.join(os.path.dirname(logpath), 'ready-' + ident), 'w').close()
t0 = time.time()
while sum(f.startswith('ready-') for f in os.listdir(os.path.dirname(logpath))) < nproc and time.time() - t0 < 60:
    time.sleep(.002)
time.sleep(delay)
with cache.enable(cachedir):
    v = list(itertools.islice(R(3), nitems))
print(json.dumps(v))
'''


@st.composite
def concurrent_recursion_cases(draw, tier):
    n = draw(st.integers(2, 4))
    work = draw(st.sampled_from([0.05, 0.1, 0.15]))
    return dict(delays=[0.0] + [draw(st.sampled_from([0.0, 0.25, 0.5, 0.75, 1.25, 1.5, 2.5])) * work for _ in range(n - 1)], work=work, nitems=[draw(st.integers(2, 5)) for _ in range(n)])


def check_concurrent_recursion(case, rec):
    """several processes iterate the same Recursion: every process gets the uncached sequence, and the generator is never advanced
    for one and the same item by two processes at a time (the per-item file lock)"""
    d = tempfile.mkdtemp(prefix='c18r-')
    try:
        logpath = os.path.join(d, 'log.txt')
        cachedir = os.path.join(d, 'cache')
        code = RCHILD % os.environ.get('VERIF_NUTILS_SRC', '')
        n = len(case['delays'])
        procs = [subprocess.Popen([sys.executable, '-c', code, logpath, cachedir, str(dl), str(i), str(case['work']), str(case['nitems'][i]), str(n)], stdout=subprocess.PIPE, stderr=subprocess.PIPE, text=True)
                 for i, dl in enumerate(case['delays'])]
        outs = []
        for p in procs:
            o, e = p.communicate(timeout=180)
            if p.returncode != 0:
                raise Violation('concurrent-caller-failed', f'recursion rc={p.returncode}: {e[-500:]}', where='concurrent-recursion:failed')
            outs.append(json.loads(o.strip().splitlines()[-1]))
        seq = [3, 4]
        while len(seq) < 8: seq.append(seq[-1] + seq[-2])
        for i, o in enumerate(outs):
            if o != seq[:case['nitems'][i]]:
                raise Violation('concurrent-wrong-value', f'recursion process {i} got {o}, uncached {seq[:case["nitems"][i]]}', where='concurrent-recursion:value')
        events = [l.split() for l in open(logpath).read().splitlines()]
        depth = {}
        collided = False
        for ev in events:
            depth[ev[1]] = depth.get(ev[1], 0) + (1 if ev[0] == 'enter' else -1)
            if depth[ev[1]] > 1:
                raise Violation('concurrent-overlap', f'item {ev[1]} of the recursion was being computed by two processes at once: {events}', where='concurrent-recursion:overlap')
        computed_by = {}
        for ev in events:
            if ev[0] == 'enter': computed_by.setdefault(ev[1], set()).add(ev[2])
        rec.label('recursion-nproc=%d' % n)
        if len({ev[2] for ev in events}) < n: rec.label('recursion:some-process-only-loaded')
        if any(len(v) > 1 for v in computed_by.values()): rec.label('recursion:item-recomputed-by-second-process')
    finally:
        shutil.rmtree(d, ignore_errors=True)
    rec.nontrivial = True


# ---- users of the cache: solver.System.solve / solve_constraints -----------------------------------------------------------------------------

@st.composite
def users_cases(draw, tier):
    n = draw(st.integers(1, 3))
    ops = [dict(trial=draw(st.sampled_from(['u', 'v', 'u,v', 'u', 'v'])), tol=draw(st.sampled_from([1e-10, 1e-8])), state=draw(st.sampled_from(['zero', 'zero', 'given'])),
                what=draw(st.sampled_from(['solve', 'solve', 'solve_constraints'])), cons=draw(st.booleans())) for _ in range(draw(st.integers(2, 6)))]
    return dict(n=n, A=[draw(st.sampled_from(V)) for _ in range(n * n)], k=draw(st.sampled_from([.5, 1., -.5])), f=[draw(st.sampled_from(V)) for _ in range(2 * n)], ops=ops)


V = [-2., -1., -.5, .5, 1., 1.5, 3.]


def check_users(case, rec):
    """a sequence of solves of systems that share one functional but differ in the unknowns, the state or the tolerance, all in one cache
    directory: every result (and its replayed log) equals the result of the same call without caching"""
    import treelog
    from nutils import function, solver, cache
    n = case['n']
    A = numpy.array(case['A']).reshape(n, n); A = A @ A.T + numpy.eye(n) * 2
    f = numpy.array(case['f'])
    u = function.Argument('u', (n,)); v = function.Argument('v', (n,))
    J = .5 * (u[:, None] * function.Array.cast(A) * u[None, :]).sum(-1).sum(-1) + .5 * (v ** 2).sum() * 3 + case['k'] * (u * v).sum() - (f[:n] * u).sum() - (f[n:] * v).sum()
    given = dict(u=numpy.arange(n) * .5 + 1, v=numpy.arange(n) * -.25 + 2)
    def run(op):
        S = solver.System(J, trial=op['trial'])
        args = {} if op['state'] == 'zero' else dict(given)
        for name in ('u', 'v'):
            if name not in op['trial'].split(',') and name not in args: args[name] = numpy.zeros(n)
        cons = {}
        if op['cons']:
            first = op['trial'].split(',')[0]
            c = numpy.full(n, numpy.nan); c[0] = .5; cons = {first: c}
        rl = treelog.RecordLog(simplify=False)
        with treelog.set(rl):
            if op['what'] == 'solve':
                r = S.solve(arguments=args, constrain=cons, tol=op['tol'])
            else:
                r = S.solve_constraints(droptol=1e-10, arguments=args, constrain=cons)
        return {k: numpy.asarray(x).tolist() for k, x in sorted(r.items())}, None
    with warnings.catch_warnings():
        warnings.simplefilter('ignore')
        uncached = [run(op) for op in case['ops']]
        d = tempfile.mkdtemp(prefix='c18u-')
        try:
            with cache.enable(d):
                for rounds in range(2):      # the second round is served from the cache entirely
                    for i, op in enumerate(case['ops']):
                        got = run(op)
                        if got[0] != uncached[i][0]:
                            raise Violation('cached-result-differs', f'round {rounds} op {i} {op}: with caching {got[0]}, without {uncached[i][0]} (earlier ops {case["ops"][:i]})', where='users:value')
        finally:
            shutil.rmtree(d, ignore_errors=True)
    trials = {op['trial'] for op in case['ops']}
    rec.nontrivial = len(trials) >= 2
    rec.label('users:ops=%d' % len(case['ops']), 'users:distinct-trials=%d' % len(trials))


SUBS = [Sub('prefix', prefix_cases, check_prefix, {'quick': 40, 'thorough': 400}, weight=4, timeout=300),
        Sub('recursion', recursion_cases, check_recursion, {'quick': 150, 'thorough': 3000}, weight=2),
        Sub('concurrent', concurrent_cases, check_concurrent, {'quick': 6, 'thorough': 40}, weight=1, deterministic=False, shrink=False, timeout=300),
        Sub('concurrent_recursion', concurrent_recursion_cases, check_concurrent_recursion, {'quick': 3, 'thorough': 30}, weight=1, deterministic=False, shrink=False, timeout=400),
        Sub('users', users_cases, check_users, {'quick': 60, 'thorough': 1000}, weight=1, timeout=120)]

TRIGGERS = {}


def extra_coverage(merged):
    return dict(crash_points_enumerated=merged.labels.get('prefix:crash_points_total', 0), crash_points_strictly_inside_pickle=merged.labels.get('prefix:crash_points_inside_pickle', 0))

MANIFEST = dict(
    category='fault_enumeration',
    technique='fault injection by enumeration (every prefix of the cache entry bytes) driven by Hypothesis-generated payloads; stateful histories of partial runs on a Recursion; multi-process races; oracle = uncached run',
    text='For generated payloads every truncation point of the written cache entry is enumerated (exhaustively for entries up to 4 KB, densely around both ends and pickle frame boundaries plus a stride otherwise) '
         'and the memoised call must return the uncached value, run the function exactly once, replay the original log and repair the entry; generated histories of partial/complete/failing runs, truncations and deletions '
         'on a Recursion must always reproduce the uncached sequence with correct resume histories; concurrent callers get one execution and the same value. Held on everything explored.',
    note='Crash model: a killed writer leaves a prefix of one pickle.dump (plus stale tails / torn overwrites). Interleavings of concurrent callers are sampled. Trusted: pickle for comparing values, Hypothesis.',
)
