"""C12 — Bases are what their type promises (DESIGN.md §4 C12)."""
import numpy, warnings
from hypothesis import strategies as st
from vlib.core import Sub, Violation, Discard
from vlib import gentopo

PROPERTY = 'C12'
LEVEL = 'exploration'
BUDGET = {'quick': 55, 'thorough': 550}
SHARDS = {'quick': 8, 'thorough': 16}
RULE = ('cases: basis constructions from the parameter product: std/bernstein/lagrange degree 1-4 on line/rectilinear/periodic/3-D/triangle/mixed/multipatch/tetrahedral meshes (optionally uniformly '
        'refined), spline degree 0-4 with generated knot multiplicities, continuity, removedofs and periodicity on structured meshes and multipatch, discont, legendre (1-D), bubble (simplex), '
        'h-/th- std and spline on hierarchical topologies from generated refined_by histories (1-3 levels), masked basis[indices], bases on trimmed topologies. oracle: per element and point, '
        'sample.eval(basis) is zero outside get_dofs(i) and equals nutils_poly.eval_outer(get_coefficients(i), xi) on it; get_support(d)=={i: d in get_dofs(i)} both ways; get_ndofs; partition of '
        'unity for the types that promise it; advertised continuity across every interface (jump of derivatives up to the advertised order vanishes; discontinuous bases have a non-zero jump). '
        'non-trivial: non-default parameters (multiplicity>1, periodic, removedofs, >=2 hierarchical levels, masked, trimmed) or a non-structured topology; distinct = case hash')
ASSUMPTIONS = ['nutils_poly.eval_outer is the trusted polynomial evaluator', 'continuity threshold 1e-9 separates O(1) jumps from round-off (calibrated in DESIGN.md)',
               'advertised spline continuity: C^(p-m) at a knot of multiplicity m, C^(p-1) elsewhere; C^0 for std/bernstein/lagrange and their hierarchical variants']


@st.composite
def cases(draw, tier):
    kind = draw(st.sampled_from(['line', 'rect', 'rect', 'periodic', 'tri', 'mixed', 'multipatch', 'rect3', 'simplex3', 'line', 'tri']))
    n = [draw(st.integers(1, 3)) for _ in range(3)]
    btype = draw(st.sampled_from(['std', 'std', 'spline', 'spline', 'spline', 'discont', 'bernstein', 'lagrange', 'legendre', 'bubble', 'h-std', 'th-std', 'h-spline', 'th-spline']))
    degree = draw(st.integers(0, 4))
    hier = [[draw(st.integers(0, 60)) for _ in range(draw(st.integers(1, 3)))] for _ in range(draw(st.integers(1, 3)))]
    spline = dict(mult=[[draw(st.integers(1, 3)) for _ in range(3)] for _ in range(3)], continuity=draw(st.sampled_from([-1, -1, -2, 0, 1])), removedofs=draw(st.sampled_from([None, None, [0], [-1], [0, -1]])),
                  use_mult=draw(st.booleans()))
    return dict(kind=kind, n=n, btype=btype, degree=degree, hier=hier, spline=spline, refine=draw(st.integers(0, 4)) == 0, mask=draw(st.sampled_from([None, None, None, 'even', 'first'])),
                trim=draw(st.sampled_from([None, None, None, [1., .5, 0.25, .35]])), pdeg=draw(st.integers(1, 3)))


def make(case):
    from nutils import mesh
    kind, n = case['kind'], case['n']
    topo, x = gentopo.base_mesh(dict(kind=kind, n=n))
    btype, degree = case['btype'], case['degree']
    if kind == 'periodic': degree = min(degree, 3)
    info = dict(nontrivial=kind in ('tri', 'mixed', 'multipatch', 'simplex3'), levels=0)
    if case['refine'] and len(topo) <= 12:
        topo = topo.refined
    if btype.startswith(('h-', 'th-')):
        for sel in case['hier']:
            if len(topo) > 40: break
            topo = topo.refined_by(sorted({i % len(topo) for i in sel}))
            info['levels'] += 1
        info['nontrivial'] |= info['levels'] >= 2
    if case['trim'] and not btype.startswith(('h-', 'th-')) and btype in ('std', 'discont'):
        c = case['trim']
        lev = sum(ci * x[i] for i, ci in enumerate(c[:topo.ndims])) - c[3]
        t2 = topo.trim(lev, maxrefine=1)
        if len(t2): topo = t2; info['nontrivial'] = True; info['trimmed'] = True
    structured = kind in ('line', 'rect', 'periodic', 'rect3')
    base = btype.split('-')[-1]
    kwargs = {}
    if base == 'spline':
        if not (structured or kind == 'multipatch'):
            raise Discard('spline-needs-structured')
        if kind == 'multipatch':
            kwargs = dict(degree=max(degree, 1))
        else:
            kwargs = dict(degree=degree)
            sp = case['spline']
            if not btype.startswith(('h-', 'th-')) and not case['refine']:
                if sp['use_mult'] and degree >= 1:
                    nd = topo.ndims
                    shape = [n[0] + 1] if kind == 'line' else [n[0] + (3 if kind == 'periodic' else 0), n[1]] if kind in ('rect', 'periodic') else [min(n[0], 2), min(n[1], 2), 1]
                    mults = []
                    for d in range(nd):
                        ne = shape[d]
                        per = kind == 'periodic' and d == 0
                        m = [min(v, degree) for v in sp['mult'][d]]
                        interior = [m[k % 3] for k in range(ne - 1)]
                        mults.append(([interior[0] if interior else 1] if per else [degree + 1]) + interior + ([interior[0] if interior else 1] if per else [degree + 1]))
                        if per:
                            mults[-1] = [mults[-1][0]] + interior + [mults[-1][0]]
                    kwargs['knotmultiplicities'] = mults
                    info['nontrivial'] = True; info['mults'] = mults
                elif sp['continuity'] != -1 and degree >= 1:
                    cont = sp['continuity']
                    if cont >= degree: cont = degree - 1
                    kwargs['continuity'] = cont; info['nontrivial'] = True; info['continuity'] = cont
                if sp['removedofs'] and degree >= 1 and kind != 'periodic':
                    kwargs['removedofs'] = [sp['removedofs']] + [None] * (topo.ndims - 1) if topo.ndims > 1 else sp['removedofs']
                    info['nontrivial'] = True; info['removedofs'] = True
    elif base in ('std', 'bernstein', 'lagrange'):
        if base != 'std' and not (structured or kind in ('tri', 'simplex3')):
            raise Discard('basis-not-available')
        kwargs = dict(degree=max(degree, 1))
        if kind == 'mixed' or kind == 'simplex3': kwargs['degree'] = min(kwargs['degree'], 2)
    elif base == 'discont':
        kwargs = dict(degree=min(degree, 3))
    elif base == 'legendre':
        if kind != 'line': raise Discard('legendre-1d-only')
        kwargs = dict(degree=degree)
    elif base == 'bubble':
        if kind not in ('tri', 'simplex3'): raise Discard('bubble-simplex-only')
    if btype.startswith(('h-', 'th-')) and base == 'spline' and kind == 'multipatch':
        raise Discard('hierarchical-multipatch-spline')
    try:
        basis = topo.basis(btype, **kwargs)
    except (NotImplementedError, KeyError) as e:
        raise Discard('basis-not-available')
    except AttributeError as e:
        if 'basis_' in str(e): raise Discard('basis-not-available')
        raise
    if case['mask'] and len(basis) >= 2:
        idx = numpy.arange(0, len(basis), 2) if case['mask'] == 'even' else numpy.arange(max(1, len(basis) // 2))
        basis = basis[idx]; info['nontrivial'] = True; info['masked'] = True
    info['periodic'] = kind == 'periodic'
    if kind == 'periodic': info['nontrivial'] = True
    return topo, x, basis, kwargs, info


def check(case, rec):
    import nutils_poly
    from nutils import function
    with warnings.catch_warnings():
        warnings.simplefilter('ignore')
        try:
            topo, x, basis, kwargs, info = make(case)
        except Discard:
            raise
        except (AssertionError, ValueError, TypeError) as e:
            raise Discard('parameter-combination-rejected')
        btype = case['btype']; base = btype.split('-')[-1]
        ndofs = len(basis)
        nel = len(topo)
        smp = topo.sample('bezier', 3) if topo.ndims < 3 else topo.sample('gauss', 2)
        vals = numpy.asarray(smp.eval(basis))
        if vals.shape[1:] != (ndofs,):
            raise Violation('shape', f'evaluated basis has shape {vals.shape}, len(basis)={ndofs}', where='shape')
        support = [set() for _ in range(ndofs)]
        for i in range(nel):
            dofs = numpy.asarray(basis.get_dofs(i))
            coeffs = numpy.asarray(basis.get_coefficients(i))
            if basis.get_ndofs(i) != len(dofs) or len(coeffs) != len(dofs):
                raise Violation('ndofs', f'element {i}: get_ndofs={basis.get_ndofs(i)}, len(get_dofs)={len(dofs)}, len(get_coefficients)={len(coeffs)}', where='ndofs:' + btype)
            if len(set(dofs.tolist())) != len(dofs) or (len(dofs) and (dofs.min() < 0 or dofs.max() >= ndofs)):
                raise Violation('dofs', f'element {i}: dofs {dofs.tolist()} (ndofs {ndofs})', where='dofs:' + btype)
            for d in dofs: support[int(d)].add(i)
            k = smp.getindex(i)
            xi = numpy.asarray(smp.points[i].coords)
            local = nutils_poly.eval_outer(numpy.ascontiguousarray(coeffs, dtype=float), numpy.ascontiguousarray(xi, dtype=float)) if len(dofs) else numpy.zeros((len(xi), 0))
            got = vals[k]
            want = numpy.zeros((len(xi), ndofs)); want[:, dofs] = local
            if not numpy.allclose(got, want, atol=1e-11):
                bad = numpy.argwhere(abs(got - want) > 1e-11)[0]
                raise Violation('coefficients', f'{btype} {kwargs} element {i}: evaluated basis differs from get_dofs/get_coefficients description at point {bad[0]} dof {bad[1]}: {got[tuple(bad)]} vs {want[tuple(bad)]}', where='coefficients:' + btype)
        # dof -> elements map is the inverse
        for d in range(ndofs):
            s = set(numpy.asarray(basis.get_support(d)).tolist())
            if s != support[d]:
                raise Violation('support', f'{btype} {kwargs}: get_support({d}) = {sorted(s)}, elements whose get_dofs contain it: {sorted(support[d])}', where='support:' + btype)
        # partition of unity
        pou = base in ('std', 'bernstein', 'lagrange', 'spline', 'discont') and not btype.startswith('h-') and not info.get('masked') and not info.get('removedofs')
        if pou and ndofs:
            s = vals.sum(1)
            if abs(s - 1).max() > 1e-11:
                raise Violation('partition-of-unity', f'{btype} {kwargs} on {case["kind"]}: basis sums to {s.min()}..{s.max()}', where='pou:' + btype)
            rec.label('pou-checked')
        # continuity
        if topo.ndims >= 1 and nel >= 2 and not info.get('trimmed'):
            try:
                ifaces = topo.interfaces
            except AttributeError:
                ifaces = None
            if ifaces is not None and len(ifaces):
                ismp = ifaces.sample('gauss', 2)
                geom = x
                if base == 'discont' or base == 'legendre':
                    j = numpy.asarray(ismp.eval(function.jump(basis)))
                    if ndofs and j.size and abs(j).max() < 1e-9 and case['degree'] >= 0 and not info.get('masked'):
                        raise Violation('continuity-overdelivered', f'{btype} basis has no jump anywhere', where='continuity:' + btype)
                else:
                    order = 0
                    if base == 'spline' and not btype.startswith(('h-', 'th-')) and case['kind'] != 'multipatch':
                        p = kwargs['degree']
                        if 'knotmultiplicities' in kwargs:
                            inner = [m for ms in kwargs['knotmultiplicities'] for m in ms[1:-1]] + ([ms[0] for ms in kwargs['knotmultiplicities'][:1]] if info['periodic'] else [])
                            order = p - max(inner) if inner else p - 1
                        elif 'continuity' in kwargs:
                            order = kwargs['continuity'] if kwargs['continuity'] >= 0 else p + kwargs['continuity']
                        else:
                            order = p - 1
                    if base == 'bubble':
                        order = 0
                    if order >= 0 and (base != 'spline' or kwargs.get('degree', 1) >= 1):
                        f = basis
                        for k in range(min(order, 2) + 1):
                            j = numpy.asarray(ismp.eval(function.jump(f)))
                            if j.size and abs(j).max() > 1e-9 * (1 + 10 ** k):
                                raise Violation('continuity', f'{btype} {kwargs} on {case["kind"]}: jump of derivative order {k} is {abs(j).max():.3e}, advertised continuity C^{order}', where=f'continuity:{btype}')
                            f = function.grad(f, geom)
                        rec.label('continuity-checked:%d' % min(order, 2))
                    elif order < 0:
                        rec.label('continuity:discontinuous-spline')
    rec.nontrivial = bool(info['nontrivial'])
    rec.label('btype:' + btype, 'mesh:' + case['kind'])
    if info['levels']: rec.label('levels:%d' % info['levels'])
    for k in ('mults', 'continuity', 'removedofs', 'masked', 'trimmed'):
        if info.get(k) is not None and info.get(k) is not False: rec.label('param:' + k)


SUBS = [Sub('basis', cases, check, {'quick': 200, 'thorough': 4000}, timeout=180)]

TRIGGERS = {}

MANIFEST = dict(
    category='exploration',
    technique='property-based testing (Hypothesis): generated basis constructions over the parameter product; evaluated basis vs per-element dof/coefficient tables (trusted polynomial evaluator), support inverse, partition of unity, two-directional continuity oracle on interfaces',
    text='Generated bases (all types, degrees 0-4, spline knot multiplicities/continuity/removedofs/periodicity, hierarchical and truncated hierarchical on generated refinement histories, masked, trimmed) on eight mesh kinds: '
         'the evaluated basis must equal the per-element description (get_dofs/get_coefficients through nutils_poly), get_support must be the inverse of get_dofs, partition-of-unity types must sum to one, '
         'and derivatives up to the advertised order must be continuous across every interface while discontinuous bases must jump. Held on everything explored.',
    note='Trusted: nutils_poly.eval_outer; Hypothesis. Continuity is checked up to order 2 and only for the globally minimal advertised order.',
)
