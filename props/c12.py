"""C12 — Bases are what their type promises (DESIGN.md §4 C12)."""
import numpy, warnings
from hypothesis import strategies as st
from vlib.core import Sub, Violation, Discard
from vlib import gentopo

PROPERTY = 'C12'
LEVEL = 'exploration'
BUDGET = {'quick': 55, 'thorough': 550}
SHARDS = {'quick': 8, 'thorough': 16}
RULE = ('cases: basis constructions from the parameter product: std/bernstein/lagrange degree 1-4 on line/rectilinear/periodic/3-D/triangle/mixed/multipatch/tetrahedral meshes (optionally uniformly '
        'refined), spline degree 0-4 with generated knot multiplicities, continuity, removedofs and periodicity on structured meshes and multipatch, discont, legendre (1-D), bubble (simplex), '
        'h-/th- std and spline on hierarchical topologies from generated refined_by histories (1-3 levels), masked basis[indices], bases on trimmed topologies. oracle: per element and point, '
        'sample.eval(basis) is zero outside get_dofs(i) and equals nutils_poly.eval_outer(get_coefficients(i), xi) on it; get_support(d)=={i: d in get_dofs(i)} both ways; get_ndofs; partition of '
        'unity for the types that promise it; advertised continuity across every interface (jump of derivatives up to the advertised order vanishes; discontinuous bases have a non-zero jump). '
        'non-trivial: non-default parameters (multiplicity>1, periodic, removedofs, >=2 hierarchical levels, masked, trimmed) or a non-structured topology; distinct = case hash')
ASSUMPTIONS = ['nutils_poly.eval_outer is the trusted polynomial evaluator', 'continuity threshold 1e-9 separates O(1) jumps from round-off (calibrated in DESIGN.md)',
               'advertised spline continuity: C^(p-m) at a knot of multiplicity m, C^(p-1) elsewhere; C^0 for std/bernstein/lagrange and their hierarchical variants']


@st.composite
def cases(draw, tier):
    kind = draw(st.sampled_from(['line', 'rect', 'rect', 'periodic', 'tri', 'mixed', 'multipatch', 'rect3', 'simplex3', 'line', 'tri', 'periodic-small']))
    n = [draw(st.integers(1, 3)) for _ in range(3)]
    btype = draw(st.sampled_from(['std', 'std', 'spline', 'spline', 'spline', 'discont', 'bernstein', 'lagrange', 'legendre', 'bubble', 'h-std', 'th-std', 'h-spline', 'th-spline']))
    if btype == 'bubble':      # simplex meshes only
        kind = draw(st.sampled_from(['tri', 'tri', 'simplex3']))
    if kind == 'periodic-small':     # one to three elements around a periodic direction: only the bases with per-element (lagrange-type) structure are defined without self-overlap
        btype = draw(st.sampled_from(['lagrange', 'bernstein', 'lagrange', 'discont']))
    degree = draw(st.integers(0, 4))
    hier = [[draw(st.integers(0, 60)) for _ in range(draw(st.integers(1, 3)))] for _ in range(draw(st.integers(1, 3)))]
    if draw(st.integers(0, 3)) == 0:
        hier = [[0] + ([draw(st.integers(0, 2))] if draw(st.booleans()) else []) for _ in range(3)]      # nested refinement towards the first element: the same low element numbers recur on every level
    spline = dict(mult=[[draw(st.integers(1, 3)) for _ in range(3)] for _ in range(3)], continuity=draw(st.sampled_from([-1, -1, -2, 0, 1])), removedofs=draw(st.sampled_from([None, None, [0], [-1], [0, -1]])),
                  use_mult=draw(st.booleans()))
    return dict(kind=kind, n=n, btype=btype, degree=degree, hier=hier, spline=spline, periodic2=draw(st.booleans()),
                parts=[draw(st.integers(0, 3)) for _ in range(12)] if draw(st.integers(0, 4)) == 0 else None, hknots=[draw(st.sampled_from([.5, 1., 1.5, 2.])) for _ in range(6)] if draw(st.booleans()) else None, refine=draw(st.integers(0, 4)) == 0, mask=draw(st.sampled_from([None, None, None, 'even', 'first'])),
                trim=draw(st.sampled_from([None, None, None, [1., .5, 0.25, .35]])), pdeg=draw(st.integers(1, 3)),
                subset=[draw(st.integers(0, 40)) for _ in range(draw(st.integers(1, 6)))] if draw(st.integers(0, 3 if btype != 'bubble' else 1)) == 0 else None)


def make(case):
    from nutils import mesh
    kind, n = case['kind'], case['n']
    if kind == 'periodic-small':
        topo, x = mesh.rectilinear([n[0], min(n[1], 2)], periodic=[0, 1] if case.get('periodic2') else [0])
    else:
        topo, x = gentopo.base_mesh(dict(kind=kind, n=n))
    btype, degree = case['btype'], case['degree']
    if kind == 'periodic': degree = min(degree, 3)
    info = dict(nontrivial=kind in ('tri', 'mixed', 'multipatch', 'simplex3'), levels=0)
    if case['refine'] and len(topo) <= 12:
        topo = topo.refined
    if case.get('subset') and not btype.startswith(('h-', 'th-')) and btype in ('std', 'discont', 'bubble', 'bernstein', 'lagrange') and kind in ('tri', 'simplex3', 'mixed', 'rect', 'line') and len(topo) >= 2:
        # a selection of the elements: the sub-topology inherits the vertex (node) numbers of the whole mesh, which are then no longer contiguous
        idx = sorted({i % len(topo) for i in case['subset']})
        if len(idx) < len(topo):
            topo = topo[numpy.array(idx)]
            info['subset'] = True; info['nontrivial'] = True
    if btype.startswith(('h-', 'th-')):
        for sel in case['hier']:
            if len(topo) > 40: break
            topo = topo.refined_by(sorted({i % len(topo) for i in sel}))
            info['levels'] += 1
        info['nontrivial'] |= info['levels'] >= 2
    if case['trim'] and not btype.startswith(('h-', 'th-')) and btype in ('std', 'discont'):
        c = case['trim']
        lev = sum(ci * x[i] for i, ci in enumerate(c[:topo.ndims])) - c[3]
        t2 = topo.trim(lev, maxrefine=1)
        if len(t2): topo = t2; info['nontrivial'] = True; info['trimmed'] = True
    structured = kind in ('line', 'rect', 'periodic', 'rect3', 'periodic-small')
    base = btype.split('-')[-1]
    kwargs = {}
    if base == 'spline':
        if not (structured or kind == 'multipatch'):
            raise Discard('spline-needs-structured')
        if kind == 'multipatch':
            kwargs = dict(degree=max(degree, 1))
        else:
            kwargs = dict(degree=degree)
            sp = case['spline']
            if not btype.startswith(('h-', 'th-')) and not case['refine']:
                if sp['use_mult'] and degree >= 1:
                    nd = topo.ndims
                    shape = [n[0] + 1] if kind == 'line' else [n[0] + (3 if kind == 'periodic' else 0), n[1]] if kind in ('rect', 'periodic') else [min(n[0], 2), min(n[1], 2), 1]
                    mults = []
                    for d in range(nd):
                        ne = shape[d]
                        per = kind == 'periodic' and d == 0
                        m = [min(v, degree) for v in sp['mult'][d]]
                        interior = [m[k % 3] for k in range(ne - 1)]
                        mults.append(([interior[0] if interior else 1] if per else [degree + 1]) + interior + ([interior[0] if interior else 1] if per else [degree + 1]))
                        if per:
                            mults[-1] = [mults[-1][0]] + interior + [mults[-1][0]]
                    kwargs['knotmultiplicities'] = mults
                    info['nontrivial'] = True; info['mults'] = mults
                elif sp['continuity'] != -1 and degree >= 1:
                    cont = sp['continuity']
                    if cont >= degree: cont = degree - 1
                    kwargs['continuity'] = cont; info['nontrivial'] = True; info['continuity'] = cont
                if sp['removedofs'] and degree >= 1 and kind != 'periodic':
                    kwargs['removedofs'] = [sp['removedofs']] + [None] * (topo.ndims - 1) if topo.ndims > 1 else sp['removedofs']
                    info['nontrivial'] = True; info['removedofs'] = True
    elif base in ('std', 'bernstein', 'lagrange'):
        if base != 'std' and not (structured or kind in ('tri', 'simplex3')):
            raise Discard('basis-not-available')
        kwargs = dict(degree=max(degree, 1))
        if kind == 'mixed' or kind == 'simplex3': kwargs['degree'] = min(kwargs['degree'], 2)
    elif base == 'discont':
        kwargs = dict(degree=min(degree, 3))
    elif base == 'legendre':
        if kind != 'line': raise Discard('legendre-1d-only')
        kwargs = dict(degree=degree)
    elif base == 'bubble':
        if kind not in ('tri', 'simplex3'): raise Discard('bubble-simplex-only')
    if btype.startswith(('h-', 'th-')) and base == 'spline' and kind == 'multipatch':
        raise Discard('hierarchical-multipatch-spline')
    if btype.startswith(('h-', 'th-')) and base == 'spline' and kind in ('line', 'rect') and case.get('hknots') and not case['refine']:
        # nonuniform knot values on the base level: the local polynomials then differ from element to element and from level to level
        shp0 = [n[0] + 1] if kind == 'line' else [n[0], n[1]]
        kv = []
        for d_, ne in enumerate(shp0):
            steps = [case['hknots'][(d_ * 3 + i) % 6] for i in range(ne)]
            kv.append([0.] + list(numpy.cumsum(steps)))
        kwargs['knotvalues'] = kv
        info['nontrivial'] = True; info['hknots'] = True
    try:
        basis = topo.basis(btype, **kwargs)
    except (NotImplementedError, KeyError) as e:
        raise Discard('basis-not-available')
    except AttributeError as e:
        if 'basis_' in str(e) or (info.get('subset') and 'connectivity' in str(e)): raise Discard('basis-not-available')     # an element selection of a structured mesh has no neighbour table for the C0 construction
        raise
    if case['mask'] and len(basis) >= 2:
        idx = numpy.arange(0, len(basis), 2) if case['mask'] == 'even' else numpy.arange(max(1, len(basis) // 2))
        basis = basis[idx]; info['nontrivial'] = True; info['masked'] = True
    info['periodic'] = kind in ('periodic', 'periodic-small')
    if info['periodic']: info['nontrivial'] = True
    return topo, x, basis, kwargs, info


def _periodic_extent(case):
    """number of elements around each periodic direction of a 'periodic-small' mesh (after the optional uniform refinement)"""
    r = 2 if case['refine'] else 1
    ext = [case['n'][0] * r]
    if case.get('periodic2'): ext.append(min(case['n'][1], 2) * r)
    return ext


def _two_element_periodic(case, v):
    return case.get('kind') == 'periodic-small' and case['btype'] in ('lagrange', 'bernstein') and 2 in _periodic_extent(case)


def _one_by_one_doubly_periodic(case, v):
    return case.get('kind') == 'periodic-small' and case['btype'] in ('lagrange', 'bernstein') and _periodic_extent(case) == [1, 1]


def check(case, rec):
    import nutils_poly
    from nutils import function
    with warnings.catch_warnings():
        warnings.simplefilter('ignore')
        try:
            topo, x, basis, kwargs, info = make(case)
        except Discard:
            raise
        except (AssertionError, ValueError, TypeError) as e:
            raise Discard('parameter-combination-rejected')
        btype = case['btype']; base = btype.split('-')[-1]
        ndofs = len(basis)
        nel = len(topo)
        if case['kind'] == 'periodic-small' and btype in ('lagrange', 'bernstein') and not info.get('masked'):
            # a C^0 nodal basis of degree p on a structured mesh has one function per node: n*p nodes around a periodic direction, n*p+1 along an open one
            p_ = kwargs['degree']; r_ = 2 if case['refine'] else 1
            ext = [case['n'][0] * r_, min(case['n'][1], 2) * r_]
            per = [True, bool(case.get('periodic2'))]
            expected = int(numpy.prod([e * p_ if pr else e * p_ + 1 for e, pr in zip(ext, per)]))
            if ndofs != expected:
                raise Violation('dof-count', f'{btype} degree {p_} on rectilinear({ext}, periodic={[d for d, pr in enumerate(per) if pr]}) has {ndofs} functions, the mesh has {expected} nodes', where='dof-count:' + btype)
            rec.label('dof-count-checked')
        smp = topo.sample('bezier', 3) if topo.ndims < 3 else topo.sample('gauss', 2)
        try:
            vals = numpy.asarray(smp.eval(basis))
        except Exception as e:
            raise Violation('eval-raised', f'{btype} {kwargs} on {case["kind"]}{" (element subset)" if info.get("subset") else ""}: evaluating the basis raised {type(e).__name__}: {str(e)[:200]}', where='eval-raised:' + btype + ':' + type(e).__name__)
        if vals.shape[1:] != (ndofs,):
            raise Violation('shape', f'evaluated basis has shape {vals.shape}, len(basis)={ndofs}', where='shape')
        support = [set() for _ in range(ndofs)]
        cond = [1.]     # size of the monomial coefficients: the rounding error of evaluating the functions (and of their sum) scales with it
        for i in range(nel):
            dofs = numpy.asarray(basis.get_dofs(i))
            coeffs = numpy.asarray(basis.get_coefficients(i))
            if basis.get_ndofs(i) != len(dofs) or len(coeffs) != len(dofs):
                raise Violation('ndofs', f'element {i}: get_ndofs={basis.get_ndofs(i)}, len(get_dofs)={len(dofs)}, len(get_coefficients)={len(coeffs)}', where='ndofs:' + btype)
            # an element that is its own neighbour (a periodic direction one element wide) legitimately lists a merged function twice
            selfneighbour = case['kind'] == 'periodic-small' and 1 in _periodic_extent(case)
            if (len(set(dofs.tolist())) != len(dofs) and not selfneighbour) or (len(dofs) and (dofs.min() < 0 or dofs.max() >= ndofs)):
                raise Violation('dofs', f'element {i}: dofs {dofs.tolist()} (ndofs {ndofs})', where='dofs:' + btype)
            for d in dofs: support[int(d)].add(i)
            if len(dofs): cond[0] = max(cond[0], float(abs(coeffs).reshape(len(dofs), -1).sum(1).max()) * len(dofs))
            k = smp.getindex(i)
            xi = numpy.asarray(smp.points[i].coords)
            local = nutils_poly.eval_outer(numpy.ascontiguousarray(coeffs, dtype=float), numpy.ascontiguousarray(xi, dtype=float)) if len(dofs) else numpy.zeros((len(xi), 0))
            got = vals[k]
            want = numpy.zeros((len(xi), ndofs))
            for jj, dd in enumerate(dofs): want[:, dd] += local[:, jj]
            if not numpy.allclose(got, want, atol=1e-11):
                bad = numpy.argwhere(abs(got - want) > 1e-11)[0]
                raise Violation('coefficients', f'{btype} {kwargs} element {i}: evaluated basis differs from get_dofs/get_coefficients description at point {bad[0]} dof {bad[1]}: {got[tuple(bad)]} vs {want[tuple(bad)]}', where='coefficients:' + btype)
        # a truncated hierarchical basis spans the same space as the classical hierarchical basis of the same topology
        if btype.startswith('th-') and not info.get('masked') and ndofs and nel <= 80:
            try:
                hbasis = topo.basis('h-' + base, **kwargs)
            except Exception:
                hbasis = None
            if hbasis is not None:
                if len(hbasis) != ndofs:
                    raise Violation('th-h-span', f'{btype} {kwargs} has {ndofs} functions, h-{base} on the same topology {len(hbasis)}', where='th-h:count')
                gs = topo.sample('gauss', 2 * max(kwargs.get('degree', 1), 1) + 1)
                TH = numpy.asarray(gs.eval(basis)); H = numpy.asarray(gs.eval(hbasis))
                if len(TH) >= ndofs:
                    coef, *_ = numpy.linalg.lstsq(H, TH, rcond=None)
                    resid = abs(H @ coef - TH).max()
                    if resid > 1e-9 * (1 + abs(TH).max()):
                        raise Violation('th-h-span', f'{btype} {kwargs} on {case["kind"]} ({info["levels"]} levels): a truncated function is not a combination of the h-{base} functions (residual {resid:.3e})', where='th-h:span')
                    rec.label('th-in-span-of-h')
        # clipping to a partition of the elements: every (part, function) pair with support becomes exactly one function, equal to the parent's on that part and zero elsewhere
        if case.get('parts') and ndofs and not btype.startswith(('h-', 'th-')) and nel >= 2:
            parts = numpy.array([case['parts'][(i * 5 + i // 3) % 12] for i in range(nel)])
            try:
                pb = basis.discontinuous_at_partition_interfaces(parts)
                pv = numpy.asarray(smp.eval(pb))
            except Exception as e:
                raise Violation('partition-basis-raised', f'{btype} {kwargs}: discontinuous_at_partition_interfaces({parts.tolist()}): {type(e).__name__}: {str(e)[:200]}', where='partition:' + type(e).__name__)
            elem_of_point = numpy.empty(len(vals), dtype=int)
            for i in range(nel): elem_of_point[smp.getindex(i)] = i
            part_of_point = parts[elem_of_point]
            want_cols = []
            for pt in sorted(set(parts.tolist())):
                m = (part_of_point == pt)[:, None] * vals
                for d in range(ndofs):
                    if any(parts[i] == pt for i in support[d]):
                        want_cols.append(m[:, d])
            W = numpy.array(want_cols).T if want_cols else numpy.zeros((len(vals), 0))
            if pv.shape[1] != W.shape[1]:
                raise Violation('partition-basis', f'{btype} {kwargs} on {case["kind"]} clipped to parts {parts.tolist()}: {pv.shape[1]} functions, {W.shape[1]} (part, function) pairs have support', where='partition:count')
            msg = _match_columns(pv, W, tol=1e-11)
            if msg:
                raise Violation('partition-basis', f'{btype} {kwargs} on {case["kind"]} clipped to parts {parts.tolist()}: {msg}', where='partition:value')
            for j in range(pv.shape[1]):
                sj = set(numpy.asarray(pb.get_support(j)).tolist())
                if len({int(parts[i]) for i in sj}) > 1:
                    raise Violation('partition-basis', f'clipped function {j} has support in parts {sorted({int(parts[i]) for i in sj})}', where='partition:support')
            rec.label('partition-basis-checked')
        # no function without support; the coordinate functions are in the span of every basis of degree >= 1 that is complete on its topology
        empty = [d for d in range(ndofs) if not support[d]]
        if empty:
            raise Violation('empty-support', f'{btype} {kwargs} on {case["kind"]}{" (element subset)" if info.get("subset") else ""}: functions {empty[:6]} are in no element\'s get_dofs (ndofs {ndofs}, {nel} elements)', where='empty-support:' + btype)
        if base in ('std', 'bubble', 'bernstein', 'lagrange', 'spline', 'discont') and kwargs.get('degree', 1) >= 1 and ndofs and nel <= 80 \
                and case['kind'] not in ('periodic', 'periodic-small', 'multipatch') and not info.get('masked') and not info.get('removedofs') and not info.get('trimmed') and 'knotvalues' not in kwargs:      # nonuniform knot values reparametrise the elements: the mesh coordinate is then not a spline
            gs = topo.sample('gauss', 2 * kwargs.get('degree', 1) + 1)
            B = numpy.asarray(gs.eval(basis)); X = numpy.asarray(gs.eval(x))
            T = numpy.concatenate([numpy.ones((len(X), 1)), X.reshape(len(X), -1)], axis=1)
            coef, *_ = numpy.linalg.lstsq(B, T, rcond=None)
            resid = abs(B @ coef - T).max()
            if resid > 1e-9 * (1 + abs(T).max()):
                raise Violation('linear-reproduction', f'{btype} {kwargs} on {case["kind"]}{" (element subset)" if info.get("subset") else ""}: 1 and the coordinates are not in the span of the basis (residual {resid:.3e})', where='linear-reproduction:' + btype)
            rec.label('linears-in-span')
        # dof -> elements map is the inverse
        for d in range(ndofs):
            s = set(numpy.asarray(basis.get_support(d)).tolist())
            if s != support[d]:
                raise Violation('support', f'{btype} {kwargs}: get_support({d}) = {sorted(s)}, elements whose get_dofs contain it: {sorted(support[d])}', where='support:' + btype)
        # partition of unity
        pou = base in ('std', 'bernstein', 'lagrange', 'spline', 'discont') and not btype.startswith('h-') and not info.get('masked') and not info.get('removedofs')
        if pou and ndofs:
            s = vals.sum(1)
            if abs(s - 1).max() > 1e-11 + 1e-15 * cond[0]:
                raise Violation('partition-of-unity', f'{btype} {kwargs} on {case["kind"]}: basis sums to {s.min()}..{s.max()}', where='pou:' + btype)
            rec.label('pou-checked')
        # continuity
        if topo.ndims >= 1 and nel >= 2 and not info.get('trimmed'):
            try:
                ifaces = topo.interfaces
            except AttributeError:
                ifaces = None
            if ifaces is not None and len(ifaces):
                ismp = ifaces.sample('gauss', 2)
                geom = x
                if base == 'discont' or base == 'legendre':
                    j = numpy.asarray(ismp.eval(function.jump(basis)))
                    if ndofs and j.size and abs(j).max() < 1e-9 and case['degree'] >= 0 and not info.get('masked'):
                        raise Violation('continuity-overdelivered', f'{btype} basis has no jump anywhere', where='continuity:' + btype)
                else:
                    order = 0
                    if base == 'spline' and not btype.startswith(('h-', 'th-')) and case['kind'] != 'multipatch':
                        p = kwargs['degree']
                        if 'knotmultiplicities' in kwargs:
                            inner = [m for ms in kwargs['knotmultiplicities'] for m in ms[1:-1]] + ([ms[0] for ms in kwargs['knotmultiplicities'][:1]] if info['periodic'] else [])
                            order = p - max(inner) if inner else p - 1
                        elif 'continuity' in kwargs:
                            order = kwargs['continuity'] if kwargs['continuity'] >= 0 else p + kwargs['continuity']
                        else:
                            order = p - 1
                    if base == 'bubble':
                        order = 0
                    if order >= 0 and (base != 'spline' or kwargs.get('degree', 1) >= 1):
                        f = basis
                        for k in range(min(order, 2) + 1):
                            j = numpy.asarray(ismp.eval(function.jump(f)))
                            if j.size and abs(j).max() > 1e-9 * (1 + 10 ** k):
                                raise Violation('continuity', f'{btype} {kwargs} on {case["kind"]}: jump of derivative order {k} is {abs(j).max():.3e}, advertised continuity C^{order}', where=f'continuity:{btype}')
                            f = function.grad(f, geom)
                        rec.label('continuity-checked:%d' % min(order, 2))
                    elif order < 0:
                        rec.label('continuity:discontinuous-spline')
    rec.nontrivial = bool(info['nontrivial'])
    rec.label('btype:' + btype, 'mesh:' + case['kind'])
    if info.get('subset'): rec.label('element-subset')
    if info['levels']: rec.label('levels:%d' % info['levels'])
    for k in ('mults', 'continuity', 'removedofs', 'masked', 'trimmed'):
        if info.get(k) is not None and info.get(k) is not False: rec.label('param:' + k)


# ---- splines against an independent Cox-de Boor reference -------------------------------------------------------------

def bsplines(t, p, x):
    """all B-splines of degree p on the knot vector t (with repetitions) at the scalar x (strictly inside a knot span): Cox-de Boor recursion"""
    t = numpy.asarray(t, dtype=float)
    N = numpy.array([1. if t[j] <= x < t[j + 1] else 0. for j in range(len(t) - 1)])
    for q in range(1, p + 1):
        M = numpy.zeros(len(t) - q - 1)
        for j in range(len(M)):
            a = (x - t[j]) / (t[j + q] - t[j]) * N[j] if t[j + q] > t[j] else 0.
            b = (t[j + q + 1] - x) / (t[j + q + 1] - t[j + 1]) * N[j + 1] if t[j + q + 1] > t[j + 1] else 0.
            M[j] = a + b
        N = M
    return N


def ref_dim(k, m, p, kind, x):
    """values of the 1-D spline functions of one direction at knot-space position x.
    kind 'open': nutils' structured spline (end multiplicities forced to p+1); 'asgiven': knot vector exactly as given (multipatch);
    'periodic': periodic splines on the knots k[:-1] with multiplicities m[:-1] and period k[-1]-k[0]"""
    k = numpy.asarray(k, dtype=float); m = list(m)
    if kind == 'open':
        m = [p + 1] + m[1:-1] + [p + 1]
    if kind in ('open', 'asgiven'):
        t = numpy.repeat(k, m)
        return bsplines(t, p, x)
    L = k[-1] - k[0]
    per = numpy.repeat(k[:-1], m[:-1])
    nd = len(per)
    t = numpy.concatenate([per - 2 * L, per - L, per, per + L, per + 2 * L])
    N = bsplines(t, p, x)
    out = numpy.zeros(nd)
    for j, v in enumerate(N):
        out[j % nd] += v
    return out


@st.composite
def splineref_cases(draw, tier):
    multipatch = draw(st.integers(0, 3)) == 0
    nd = 2 if multipatch else draw(st.sampled_from([1, 1, 2, 2, 3]))
    dims = []
    p_all = draw(st.integers(1, 3))
    for d in range(nd):
        p = p_all if multipatch or draw(st.booleans()) else draw(st.integers(0, 4 if nd < 3 else 2))
        periodic = (not multipatch) and draw(st.integers(0, 3)) == 0 and p <= 3
        n = draw(st.integers(4, 6)) if periodic else draw(st.integers(1, 4 if nd < 3 else 2))
        knots = None
        if draw(st.booleans()):
            steps = [draw(st.sampled_from([.5, 1., 1.5, 2., .25])) for _ in range(n)]
            knots = [0.] + list(numpy.cumsum(steps))
        mults = None
        if draw(st.booleans()) and p >= 1:
            hi = p if periodic else p + 1
            mults = [draw(st.integers(1, hi)) for _ in range(n + 1)]
            if periodic: mults[-1] = mults[0]
        continuity = draw(st.sampled_from([-1, -1, -2, 0, 1]))
        removedofs = draw(st.sampled_from([None, None, None, [0], [-1], [0, -1], [1]])) if not periodic and not multipatch else None
        dims.append(dict(p=p, n=n, periodic=periodic, knots=knots, mults=mults, continuity=continuity, removedofs=removedofs))
    if multipatch:
        n = draw(st.integers(1, 3))
        for d in dims: d['n'] = n
        # one knot vector for every patch edge
        d0 = dims[0]
        if d0['knots'] is not None: d0['knots'] = d0['knots'][:n + 1] if len(d0['knots']) >= n + 1 else None
        if d0['mults'] is not None: d0['mults'] = (d0['mults'] + [1, 1, 1])[:n + 1]
        dims[1] = dict(d0)
    return dict(multipatch=multipatch, dims=dims, patchcontinuous=draw(st.booleans()), use_continuity=draw(st.booleans()))


def _match_columns(got, want, tol=1e-10):
    """are the columns of got a permutation of the columns of want?"""
    if got.shape != want.shape:
        return f'{got.shape[1]} functions, reference has {want.shape[1]}'
    used = numpy.zeros(got.shape[1], dtype=bool)
    for j in range(want.shape[1]):
        d = abs(got - want[:, j:j + 1]).max(0)
        d[used] = numpy.inf
        i = int(numpy.argmin(d)) if len(d) else -1
        if i < 0 or d[i] > tol:
            return f'reference function {j} (max value {abs(want[:, j]).max():.3g}) has no counterpart (closest differs by {d[i] if i >= 0 else float("nan"):.3e})'
        used[i] = True
    return None


def check_splineref(case, rec):
    from nutils import mesh
    dims = case['dims']
    nd = len(dims)
    with warnings.catch_warnings():
        warnings.simplefilter('ignore')
        if not case['multipatch']:
            topo, x = mesh.rectilinear([d['n'] for d in dims], periodic=[i for i, d in enumerate(dims) if d['periodic']])
            kwargs = dict(degree=[d['p'] for d in dims])
            eff = []; c0s = []
            for d in dims:
                p = d['p']
                c0 = d['continuity']
                c = c0 + p if c0 < 0 else c0
                if not -1 <= c < p:
                    c0 = -1; c = p - 1
                eff.append(c); c0s.append(c0)
            if any(d['knots'] is not None for d in dims): kwargs['knotvalues'] = [d['knots'] for d in dims]
            if any(d['mults'] is not None for d in dims): kwargs['knotmultiplicities'] = [d['mults'] for d in dims]
            elif case['use_continuity']:
                kwargs['continuity'] = c0s
            if any(d['removedofs'] for d in dims): kwargs['removedofs'] = [d['removedofs'] for d in dims]
            smp = topo.sample('gauss', 3)
            X = numpy.asarray(smp.eval(x))
            per_dim = []
            for i, d in enumerate(dims):
                p, n = d['p'], d['n']
                k = numpy.asarray(d['knots'] if d['knots'] is not None else numpy.arange(n + 1), dtype=float)
                m = list(d['mults']) if d['mults'] is not None else [p - eff[i] if 'continuity' in kwargs else 1] * (n + 1)
                kind = 'open'
                if d['periodic']:
                    kind = 'periodic' if not (m[0] == m[-1] == p + 1) else 'open'
                cols = []
                for xp in X[:, i]:
                    e = min(int(numpy.floor(xp)), n - 1); u = xp - e
                    cols.append(ref_dim(k, m, p, kind, k[e] + u * (k[e + 1] - k[e])))
                R = numpy.array(cols)
                if d['removedofs']:
                    if any(not -R.shape[1] <= r < R.shape[1] for r in d['removedofs']) or len({r % R.shape[1] for r in d['removedofs']}) >= R.shape[1]:
                        raise Discard('removedofs-out-of-range-or-everything-removed')
                    keep = [j for j in range(R.shape[1]) if j not in {r % R.shape[1] for r in d['removedofs']}]
                    R = R[:, keep]
                per_dim.append(R)
            want = per_dim[0]
            for R in per_dim[1:]:
                want = (want[:, :, None] * R[:, None, :]).reshape(len(X), -1)
            try:
                basis = topo.basis('spline', **kwargs)
            except Exception as e:
                raise Violation('spline-raised', f'basis(spline, {kwargs}) on rectilinear {[d["n"] for d in dims]} periodic {[d["periodic"] for d in dims]}: {type(e).__name__}: {str(e)[:200]}', where='splineref:raised:' + type(e).__name__)
            vals = numpy.asarray(smp.eval(basis))
            descr = f'spline {kwargs} on rectilinear {[d["n"] for d in dims]} periodic {[i for i, d in enumerate(dims) if d["periodic"]]}'
            if vals.shape[1] != want.shape[1]:
                raise Violation('spline-count', f'{descr}: {vals.shape[1]} functions, the knot vectors define {want.shape[1]}', where='splineref:count')
            if not any(d['periodic'] for d in dims):
                if abs(vals - want).max() > 1e-10:
                    bad = numpy.argwhere(abs(vals - want) > 1e-10)[0]
                    raise Violation('spline-value', f'{descr}: function {bad[1]} at x={X[bad[0]].tolist()} is {vals[tuple(bad)]}, Cox-de Boor gives {want[tuple(bad)]}', where='splineref:value')
            else:
                msg = _match_columns(vals, want)
                if msg:
                    raise Violation('spline-value', f'{descr}: {msg}', where='splineref:periodic')
            rec.label('structured', 'ndims=%d' % nd, *(['periodic'] if any(d['periodic'] for d in dims) else []), *(['knotvalues'] if 'knotvalues' in kwargs else []),
                      *(['multiplicities'] if 'knotmultiplicities' in kwargs else []), *(['continuity'] if 'continuity' in kwargs else []), *(['removedofs'] if 'removedofs' in kwargs else []))
            rec.nontrivial = len(kwargs) > 1
        else:
            d = dims[0]; p, n = d['p'], d['n']
            topo, x = mesh.multipatch(patches=[[0, 1, 3, 4], [1, 2, 4, 5]], patchverts=[[0, 0], [.5, 0], [1, 0], [0, 1], [.5, 1], [1, 1]], nelems=n)
            kwargs = dict(degree=p, patchcontinuous=case['patchcontinuous'])
            k = numpy.asarray(d['knots'] if d['knots'] is not None else numpy.arange(n + 1), dtype=float)
            if d['knots'] is not None: kwargs['knotvalues'] = {None: list(d['knots'])}
            m = list(d['mults']) if d['mults'] is not None else [p + 1] + [1] * (n - 1) + [p + 1]
            if d['mults'] is not None: kwargs['knotmultiplicities'] = {None: list(d['mults'])}
            if sum(m) - p - 1 <= 0:
                raise Discard('knot-vector-too-short')
            if case['patchcontinuous'] and (m[0] != p + 1 or m[-1] != p + 1):
                raise Discard('patch-continuity-needs-open-ends')     # merging interface functions presumes interpolating ends; not asserted
            try:
                basis = topo.basis('spline', **kwargs)
            except Exception as e:
                raise Violation('spline-raised', f'multipatch basis(spline, {kwargs}) nelems={n}: {type(e).__name__}: {str(e)[:200]}', where='splineref:raised:' + type(e).__name__)
            smp = topo.sample('gauss', 3)
            vals, X = smp.eval([basis, x])
            vals = numpy.asarray(vals); X = numpy.asarray(X)
            nfun = sum(m) - p - 1
            expected = 2 * nfun * nfun - (nfun if case['patchcontinuous'] else 0)
            descr = f'multipatch spline {kwargs} nelems={n}'
            if vals.shape[1] != expected:
                raise Violation('spline-count', f'{descr}: {vals.shape[1]} functions, expected {expected}', where='splineref:multipatch-count')
            if (abs(vals).max(0) < 1e-13).any():
                raise Violation('spline-zero-function', f'{descr}: functions {numpy.nonzero(abs(vals).max(0) < 1e-13)[0].tolist()} vanish at every sample point', where='splineref:zero-function')
            for ipatch in range(2):
                sel = (X[:, 0] < .5) if ipatch == 0 else (X[:, 0] > .5)
                Xp = X[sel]
                xi = [Xp[:, 1] * n, (Xp[:, 0] - .5 * ipatch) / .5 * n]     # patch axes: first along y, second along x
                per_dim = []
                for a in range(2):
                    cols = []
                    for xp in xi[a]:
                        e = min(int(numpy.floor(xp)), n - 1); u = xp - e
                        cols.append(ref_dim(k, m, p, 'asgiven', k[e] + u * (k[e + 1] - k[e])))
                    per_dim.append(numpy.array(cols))
                want = (per_dim[0][:, :, None] * per_dim[1][:, None, :]).reshape(len(Xp), -1)
                got = vals[sel]
                got = got[:, abs(got).max(0) > 1e-13]
                msg = _match_columns(got, want)
                if msg:
                    raise Violation('spline-value', f'{descr} patch {ipatch}: {msg}', where='splineref:multipatch')
            rec.label('multipatch', *(['multiplicities'] if d['mults'] is not None else []), *(['knotvalues'] if d['knots'] is not None else []), 'patchcontinuous=%s' % case['patchcontinuous'],
                      *(['non-open-ends'] if (m[0] != p + 1 or m[-1] != p + 1) else []))
            rec.nontrivial = True


SUBS = [Sub('basis', cases, check, {'quick': 200, 'thorough': 4000}, weight=3, timeout=180),
        Sub('splineref', splineref_cases, check_splineref, {'quick': 300, 'thorough': 6000}, weight=2, timeout=120)]

TRIGGERS = {'c0-basis-two-element-periodic': _two_element_periodic, 'c0-basis-one-by-one-doubly-periodic': _one_by_one_doubly_periodic}

MANIFEST = dict(
    category='exploration',
    technique='property-based testing (Hypothesis): generated basis constructions over the parameter product; evaluated basis vs per-element dof/coefficient tables (trusted polynomial evaluator), support inverse, partition of unity, two-directional continuity oracle on interfaces',
    text='Generated bases (all types, degrees 0-4, spline knot multiplicities/continuity/removedofs/periodicity, hierarchical and truncated hierarchical on generated refinement histories, masked, trimmed) on eight mesh kinds: '
         'the evaluated basis must equal the per-element description (get_dofs/get_coefficients through nutils_poly), get_support must be the inverse of get_dofs, partition-of-unity types must sum to one, '
         'and derivatives up to the advertised order must be continuous across every interface while discontinuous bases must jump. Held on everything explored.',
    note='Trusted: nutils_poly.eval_outer; Hypothesis. Continuity is checked up to order 2 and only for the globally minimal advertised order.',
)
