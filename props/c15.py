"""C15 — Matrix objects are faithful to the data they were assembled from (DESIGN.md §4 C15)."""
import pickle, numpy
from hypothesis import strategies as st
from vlib.core import Sub, Violation, Discard

PROPERTY = 'C15'
LEVEL = 'exploration'
BUDGET = {'quick': 40, 'thorough': 400}
SHARDS = {'quick': 8, 'thorough': 16}
RULE = ('cases: (a) pools of 1-3 matrices given as valid CSR/COO/block-CSR data (shapes 0..6 x 0..6, explicit zeros, '
        'float/complex, int32/int64/uint index dtypes) plus a history of 0..20 matrix operations, run on the numpy and scipy '
        'backends and compared after every step with a dense numpy model; (b) valid CSR data with exactly one corruption '
        '(column>=ncols, negative column, unsorted/repeated column in a row, non-monotone rowptr, rowptr[0]!=0, '
        'rowptr[-1]!=len(values), length mismatch, 2-D values), which must raise. non-trivial: data has an empty row, an explicit '
        'zero or is rectangular, or the history has >=3 operations; every corruption case is non-trivial; distinct = distinct case hash')
ASSUMPTIONS = ['dense numpy arithmetic is the reference model', 'MKL backend is not installable in this sandbox and is not covered',
               'scipy 1.18 from the offline wheelhouse provides the second backend']

VALS = [0.0, 1.0, -1.0, 0.5, 2.0, -3.0, 0.25, 1.5, -0.75, 4.0]


def backends():
    from nutils import matrix
    out = ['numpy']
    try:
        matrix.backend('scipy')
        out.append('scipy')
    except Exception:
        pass
    return out


_BACKENDS = None
def get_backends():
    global _BACKENDS
    if _BACKENDS is None:
        _BACKENDS = backends()
    return _BACKENDS


# ---------------------------------------------------------------------------------------------
# generators (plain data)

@st.composite
def mat_spec(draw, nrows=None, ncols=None, kind=None):
    nrows = draw(st.integers(0, 6)) if nrows is None else nrows
    ncols = draw(st.integers(0, 6)) if ncols is None else ncols
    kind = kind or draw(st.sampled_from(['float', 'complex']))
    cells = [(r, c) for r in range(nrows) for c in range(ncols)]
    density = draw(st.sampled_from([0.0, 0.2, 0.5, 0.9]))
    chosen = [rc for rc in cells if draw(st.floats(0, 1)) < density] if cells else []
    entries = []
    for r, c in chosen:
        v = draw(st.sampled_from(VALS))
        if kind == 'complex':
            v = [v, draw(st.sampled_from(VALS))]
        entries.append([r, c, v])
    return dict(nrows=nrows, ncols=ncols, kind=kind, entries=entries,
                idx=draw(st.sampled_from(['int64', 'int32', 'uint32', 'uint64', 'intp'])),
                route=draw(st.sampled_from(['csr', 'csr', 'coo', 'block', 'list'])),
                split=draw(st.integers(0, 6)), rsplit=draw(st.integers(0, 6)))


def _sel(draw, n):
    if draw(st.booleans()):
        return dict(t='bool', v=[draw(st.booleans()) for _ in range(n)])
    mask = [draw(st.booleans()) for _ in range(n)]
    return dict(t='int', v=[i for i, m in enumerate(mask) if m])


@st.composite
def ops_case(draw, tier='quick'):
    kind = draw(st.sampled_from(['float', 'complex']))
    nrows, ncols = draw(st.integers(0, 6)), draw(st.integers(0, 6))
    square = draw(st.integers(0, 3)) == 0
    if square:
        ncols = nrows
    nm = draw(st.integers(1, 3))
    mats = [draw(mat_spec(nrows, ncols, kind)) for _ in range(nm)]
    maxops = 8 if tier == 'quick' else 20
    nops = draw(st.integers(0, maxops))
    ops = []
    for _ in range(nops):
        op = draw(st.sampled_from(['add', 'sub', 'neg', 'mul', 'rmul', 'div', 'T', 'matvec', 'matmat', 'mat3d', 'submatrix', 'export_dense',
                                   'export_csr', 'export_coo', 'rowsupp', 'diagonal', 'pickle', 'meta', 'submatrix']))
        o = dict(op=op, a=draw(st.integers(0, 7)), b=draw(st.integers(0, 7)))
        if op in ('mul', 'rmul', 'div'):
            o['s'] = draw(st.sampled_from([2.0, -1.0, 0.5, 3, -2, 0.0] if op != 'div' else [2.0, -1.0, 0.5, 4, -2]))
        if op in ('matvec', 'matmat', 'mat3d'):
            o['x'] = [draw(st.sampled_from(VALS)) for _ in range(6 * 3)]
            o['k'] = draw(st.integers(0, 3))
        if op == 'submatrix':
            o['rows'] = _sel(draw, 6)
            o['cols'] = _sel(draw, 6)
            o['twice'] = draw(st.booleans())
            # further selections on the same matrix object (exercises the one-entry submatrix cache)
            o['more'] = [[_sel(draw, 6), _sel(draw, 6)] for _ in range(draw(st.integers(0, 4)))]
        if op == 'rowsupp':
            o['tol'] = draw(st.sampled_from([0, 0, 0.5, 1.0, 2.5]))
        ops.append(o)
    return dict(mats=mats, ops=ops)


MUTATIONS = ['col_ge_ncols', 'col_negative', 'unsorted', 'repeated', 'rowptr_nonmonotone', 'rowptr0', 'rowptr_last',
             'len_mismatch', 'values_2d', 'rowptr_float', 'colidx_float']


@st.composite
def invalid_case(draw, tier='quick'):
    spec = draw(mat_spec(draw(st.integers(1, 6)), draw(st.integers(1, 6))))
    spec['route'] = 'csr'
    return dict(mat=spec, mutation=draw(st.sampled_from(MUTATIONS)), pos=draw(st.integers(0, 40)), pos2=draw(st.integers(0, 40)),
                backend=draw(st.sampled_from(['numpy', 'scipy'])))


# ---------------------------------------------------------------------------------------------
# interpretation

def _val(kind, v):
    return complex(*v) if kind == 'complex' else float(v)


def csr_of(spec):
    dtype = complex if spec['kind'] == 'complex' else float
    ent = sorted(spec['entries'], key=lambda e: (e[0], e[1]))
    values = numpy.array([_val(spec['kind'], v) for _, _, v in ent], dtype=dtype)
    rows = numpy.array([r for r, _, _ in ent], dtype=int)
    cols = numpy.array([c for _, c, _ in ent], dtype=int)
    rowptr = numpy.searchsorted(rows, numpy.arange(spec['nrows'] + 1))
    dense = numpy.zeros((spec['nrows'], spec['ncols']), dtype=dtype)
    dense[rows, cols] = values
    return values, rows, cols, rowptr, dense


def build(spec):
    from nutils import matrix
    values, rows, cols, rowptr, dense = csr_of(spec)
    idx = numpy.dtype(spec['idx'])
    route = spec['route']
    nrows, ncols = spec['nrows'], spec['ncols']
    if route == 'csr':
        m = matrix.assemble_csr(values, rowptr.astype(idx), cols.astype(idx), ncols)
    elif route == 'list':
        m = matrix.assemble_csr(values.tolist() if len(values) else values, rowptr.tolist(), cols.astype(idx), ncols)
    elif route == 'coo':
        m = matrix.assemble_coo(values, rows.astype(idx), nrows, cols.astype(idx), ncols)
    else:
        # block route: split columns at `split` and rows at `rsplit`
        cs = min(spec['split'], ncols)
        rs = min(spec['rsplit'], nrows)
        if ncols == 0 or nrows == 0:
            m = matrix.assemble_csr(values, rowptr.astype(idx), cols.astype(idx), ncols)
        else:
            blocks = []
            for r0, r1 in ((0, rs), (rs, nrows)):
                if r0 == r1 and not (r0 == 0 and r1 == nrows):
                    continue
                brow = []
                for c0, c1 in ((0, cs), (cs, ncols)):
                    sel = (rows >= r0) & (rows < r1) & (cols >= c0) & (cols < c1)
                    brow.append((values[sel], numpy.searchsorted(rows[sel] - r0, numpy.arange(r1 - r0 + 1)), (cols[sel] - c0).astype(int), c1 - c0))
                blocks.append(brow)
            m = matrix.assemble_block_csr(blocks)
    return m, dense


def _close(a, b):
    a = numpy.asarray(a); b = numpy.asarray(b)
    return a.shape == b.shape and numpy.allclose(a, b, rtol=1e-13, atol=1e-13)


def check_matrix(m, dense, where):
    """all read-only observations of a matrix against its dense model"""
    if tuple(m.shape) != dense.shape:
        raise Violation('shape', f'{where}: shape {m.shape} != {dense.shape}', where=where)
    kind = 'c' if dense.dtype.kind == 'c' else 'f'
    if numpy.dtype(m.dtype).kind != kind:
        raise Violation('dtype', f'{where}: dtype {m.dtype} for model {dense.dtype}', where=where)
    d = m.export('dense')
    if not _close(d, dense):
        raise Violation('export-dense', f'{where}: {d.tolist()} != {dense.tolist()}', where=where)


def check_ops(case, rec):
    from nutils import matrix
    specs = case['mats']
    rect = specs[0]['nrows'] != specs[0]['ncols']
    for be in get_backends():
        with matrix.backend(be):
            pool = []
            for i, spec in enumerate(specs):
                try:
                    m, dense = build(spec)
                except Exception as e:
                    raise Violation('assemble-raised', f'[{be}] valid {spec["route"]} data rejected: {type(e).__name__}: {e}', where='assemble:' + spec['route'] + ':' + type(e).__name__)
                check_matrix(m, dense, f'[{be}] assemble:{spec["route"]}')
                pool.append((m, dense))
            for step, o in enumerate(case['ops']):
                op = o['op']
                where = f'[{be}] step {step} {op}'
                A, a = pool[o['a'] % len(pool)]
                B, b = pool[o['b'] % len(pool)]
                try:
                    if op in ('add', 'sub'):
                        if a.shape != b.shape:
                            continue
                        R, r = (A + B, a + b) if op == 'add' else (A - B, a - b)
                    elif op == 'neg':
                        R, r = -A, -a
                    elif op == 'mul':
                        R, r = A * o['s'], a * o['s']
                    elif op == 'rmul':
                        R, r = o['s'] * A, o['s'] * a
                    elif op == 'div':
                        R, r = A / o['s'], a / o['s']
                    elif op == 'T':
                        R, r = A.T, a.T.copy()
                    elif op in ('matvec', 'matmat', 'mat3d'):
                        n = a.shape[1]
                        if op == 'matvec':
                            x = numpy.array(o['x'][:n], dtype=float)
                        elif op == 'mat3d':
                            # an operand with further axes: the product contracts the first axis (also when another axis has the same length)
                            x = numpy.resize(numpy.array(o['x'], dtype=float), (n, n if o['k'] % 2 else max(o['k'], 1), 2))
                        else:
                            x = numpy.array(o['x'][:n * o['k']], dtype=float).reshape(n, o['k'])
                        y = A @ x
                        want = numpy.tensordot(a, x, 1)
                        if not _close(y, want):
                            raise Violation('matmul', f'{where}: {numpy.asarray(y).tolist()} != {want.tolist()}', where=op)
                        continue
                    elif op == 'submatrix':
                        nr, nc = a.shape
                        def sel(s, n):
                            if s['t'] == 'bool':
                                v = numpy.array(s['v'][:n], dtype=bool)
                                return v, v
                            v = numpy.array([i for i in s['v'] if i < n], dtype=int)
                            mask = numpy.zeros(n, dtype=bool); mask[v] = True
                            return v, mask
                        rs, rmask = sel(o['rows'], nr)
                        cs, cmask = sel(o['cols'], nc)
                        R = A.submatrix(rs, cs)
                        r = a[numpy.ix_(rmask, cmask)]
                        for mr, mc in o.get('more', []):
                            rs2, rmask2 = sel(mr, nr)
                            cs2, cmask2 = sel(mc, nc)
                            check_matrix(A.submatrix(rs2, cs2), a[numpy.ix_(rmask2, cmask2)], where + ' (further selection on the same object)')
                        if o.get('more'):
                            check_matrix(A.submatrix(rs, cs), r, where + ' (first selection again)')
                        if o['twice']:
                            # exercise the one-entry cache: another selection, then the first again
                            A.submatrix(~rmask, cmask)
                            R2 = A.submatrix(rs, cs)
                            check_matrix(R2, r, where + ' (after other selection)')
                    elif op == 'export_dense':
                        check_matrix(A, a, where)
                        continue
                    elif op == 'export_csr':
                        data, colidx, rowptr = A.export('csr')
                        check_csr(data, colidx, rowptr, a, where)
                        continue
                    elif op == 'export_coo':
                        data, (row, col) = A.export('coo')
                        check_coo(data, row, col, a, where)
                        continue
                    elif op == 'rowsupp':
                        got = A.rowsupp(o['tol'])
                        want = (abs(a) > o['tol']).any(axis=1)
                        if not (numpy.asarray(got).dtype == bool and numpy.array_equal(got, want)):
                            raise Violation('rowsupp', f'{where}: {got} != {want}', where=op)
                        continue
                    elif op == 'diagonal':
                        if a.shape[0] != a.shape[1]:
                            try:
                                A.diagonal()
                            except matrix.MatrixError:
                                continue
                            except Exception as e:
                                if be == 'scipy':
                                    continue  # scipy's own diagonal() is defined for rectangular matrices
                                raise
                            if be == 'scipy':
                                continue
                            raise Violation('diagonal', f'{where}: rectangular diagonal did not raise', where=op)
                        got = A.diagonal()
                        if not _close(got, numpy.diagonal(a)):
                            raise Violation('diagonal', f'{where}: {got} != {numpy.diagonal(a)}', where=op)
                        continue
                    elif op == 'pickle':
                        R, r = pickle.loads(pickle.dumps(A)), a
                        if type(R) is not type(A):
                            raise Violation('pickle', f'{where}: type changed {type(A)} -> {type(R)}', where=op)
                    elif op == 'meta':
                        if int(A.size) != a.size or tuple(A.shape) != a.shape:
                            raise Violation('meta', f'{where}: size/shape {A.size} {A.shape} vs {a.shape}', where=op)
                        continue
                    else:
                        raise RuntimeError(op)
                except Violation:
                    raise
                except Exception as e:
                    raise Violation('op-raised', f'{where}: {type(e).__name__}: {e}', where=op + ':' + type(e).__name__)
                check_matrix(R, r, where)
                # operands unchanged
                check_matrix(A, a, where + ' (operand a afterwards)')
                pool.append((R, r))
                if len(pool) > 8:
                    pool.pop(1 if len(specs) < 2 else len(specs))
            rec.label('backend:' + be)
    zero = any((_val(s['kind'], v) == 0) for s in specs for *_, v in s['entries'])
    emptyrow = any(s['nrows'] and len({e[0] for e in s['entries']}) < s['nrows'] for s in specs)
    rec.nontrivial = bool(rect or zero or emptyrow or len(case['ops']) >= 3)
    for o in case['ops']:
        rec.label('op:' + o['op'])
    for s in specs:
        rec.label('route:' + s['route'])
        if s['nrows'] == 0 or s['ncols'] == 0:
            rec.label('empty-shape')


def check_csr(data, colidx, rowptr, a, where):
    data, colidx, rowptr = map(numpy.asarray, (data, colidx, rowptr))
    nr, nc = a.shape
    ok = (rowptr.ndim == 1 and len(rowptr) == nr + 1 and rowptr[0] == 0 and rowptr[-1] == len(data) == len(colidx)
          and (numpy.diff(rowptr) >= 0).all() and ((colidx >= 0) & (colidx < nc)).all())
    if ok:
        for i in range(nr):
            c = colidx[rowptr[i]:rowptr[i + 1]]
            if (numpy.diff(c) <= 0).any():
                ok = False
    if not ok:
        raise Violation('export-csr-structure', f'{where}: rowptr={rowptr.tolist()} colidx={colidx.tolist()} for shape {a.shape}', where='export_csr')
    d = numpy.zeros(a.shape, dtype=a.dtype)
    rows = numpy.repeat(numpy.arange(nr), numpy.diff(rowptr))
    numpy.add.at(d, (rows, colidx), data)
    if not _close(d, a):
        raise Violation('export-csr', f'{where}: {d.tolist()} != {a.tolist()}', where='export_csr')


def check_coo(data, row, col, a, where):
    data, row, col = map(numpy.asarray, (data, row, col))
    nr, nc = a.shape
    if not (len(data) == len(row) == len(col) and ((row >= 0) & (row < nr)).all() and ((col >= 0) & (col < nc)).all()):
        raise Violation('export-coo-structure', f'{where}: row={row.tolist()} col={col.tolist()}', where='export_coo')
    if len(set(zip(row.tolist(), col.tolist()))) != len(row):
        raise Violation('export-coo-structure', f'{where}: duplicate index pairs', where='export_coo')
    d = numpy.zeros(a.shape, dtype=a.dtype)
    d[row, col] = data
    if not _close(d, a):
        raise Violation('export-coo', f'{where}: {d.tolist()} != {a.tolist()}', where='export_coo')


def mutate(case):
    """returns (values, rowptr, colidx, ncols) with exactly one corruption, or None if not applicable"""
    spec = case['mat']
    values, rows, cols, rowptr, dense = csr_of(spec)
    idx = numpy.dtype(spec['idx'])
    sidx = idx if idx.kind == 'i' else numpy.dtype('int64')
    rowptr = rowptr.astype(sidx); cols = cols.astype(sidx)
    n = len(values); ncols = spec['ncols']; nrows = spec['nrows']
    m = case['mutation']; p = case['pos']; q = case['pos2']
    if m == 'col_ge_ncols':
        if not n: return None
        cols[p % n] = ncols + (q % 3)
    elif m == 'col_negative':
        if not n: return None
        cols[p % n] = -1 - (q % ncols)
    elif m in ('unsorted', 'repeated'):
        # find a row with >= 2 entries
        cand = [i for i in range(nrows) if rowptr[i + 1] - rowptr[i] >= 2]
        if not cand: return None
        i = cand[p % len(cand)]
        k = rowptr[i] + q % (rowptr[i + 1] - rowptr[i] - 1)
        if m == 'unsorted':
            cols[k], cols[k + 1] = cols[k + 1], cols[k]
        else:
            cols[k + 1] = cols[k]
    elif m == 'rowptr_nonmonotone':
        cand = [i for i in range(1, nrows) if rowptr[i] > 0]
        if not cand: return None
        i = cand[p % len(cand)]
        if rowptr[i] <= rowptr[i - 1] and rowptr[i + 1] > rowptr[i]:
            rowptr[i] = rowptr[i + 1] + 1 if rowptr[i + 1] + 1 <= n else rowptr[i]
        if i + 1 <= nrows and rowptr[i + 1] > 0 and rowptr[i] <= rowptr[i + 1]:
            rowptr[i] = rowptr[i + 1] + 1
        if (numpy.diff(rowptr) >= 0).all(): return None
    elif m == 'rowptr0':
        rowptr[0] = 1
    elif m == 'rowptr_last':
        rowptr[-1] = n + 1 + (p % 2)
    elif m == 'len_mismatch':
        cols = numpy.concatenate([cols, numpy.zeros(1 + p % 2, dtype=cols.dtype)]) if q % 2 or not n else cols[:-1]
    elif m == 'values_2d':
        values = values[:, None] if n else numpy.zeros((0, 1))
    elif m == 'rowptr_float':
        rowptr = rowptr.astype(float)
    elif m == 'colidx_float':
        if not n: return None
        cols = cols.astype(float)
    else:
        raise RuntimeError(m)
    return values, rowptr, cols, ncols


def check_invalid(case, rec):
    from nutils import matrix
    be = case['backend']
    if be not in get_backends():
        be = 'numpy'
    data = mutate(case)
    if data is None:
        raise Discard('mutation-not-applicable')
    values, rowptr, cols, ncols = data
    with matrix.backend(be):
        try:
            m = matrix.assemble_csr(values, rowptr, cols, ncols)
        except Exception as e:
            rec.label('rejected:' + case['mutation'], 'exc:' + type(e).__name__)
            rec.nontrivial = True
            return
    try:
        d = m.export('dense').tolist()
    except Exception as e:
        d = f'<export raised {e}>'
    raise Violation('invalid-accepted', f'[{be}] {case["mutation"]}: values={values.tolist()} rowptr={rowptr.tolist()} colidx={cols.tolist()} ncols={ncols} accepted -> {d}',
                    where=case['mutation'])


SUBS = [
    Sub('ops', lambda tier: ops_case(tier), check_ops, {'quick': 1500, 'thorough': 15000}, weight=3),
    Sub('invalid', lambda tier: invalid_case(tier), check_invalid, {'quick': 1500, 'thorough': 15000}, weight=1),
]

TRIGGERS = {}

MANIFEST = dict(
    category='exploration',
    technique='model-based property testing (Hypothesis): generated CSR/COO/block data and operation histories vs a dense numpy model on every available backend; single-corruption rejection tests',
    text='Generated matrices (all shapes 0..6 x 0..6, explicit zeros, float/complex, several index dtypes, three assembly routes) and generated operation '
         'histories are compared step by step with a dense numpy model on the numpy and scipy backends; every invalid-input class named by the property is generated by '
         'one corruption of valid data and must raise. Held-on-everything-explored only; sizes are bounded (<=6x6, <=20 operations).',
    note='Trusted: numpy dense arithmetic as the model, Hypothesis generation. MKL backend absent (not installable offline). scipy comes from the offline wheelhouse into /verif/.deps.',
)
