"""C13 — Argument manipulation commutes with evaluation (DESIGN.md §4 C13)."""
import numpy, warnings
from hypothesis import strategies as st
from vlib.core import Sub, Violation, Discard

PROPERTY = 'C13'
LEVEL = 'exploration'
BUDGET = {'quick': 50, 'thorough': 500}
SHARDS = {'quick': 8, 'thorough': 16}
RULE = ('cases: function arrays built from 1-4 arguments (scalars, vectors, matrices; float and int) by generated expression trees (polynomial terms, products, contractions, sin/exp, indexing), also '
        'inside a sample integral over a mesh; replacement maps argument->constant array / other argument / expression of other arguments, including swaps u<->v and chains u->v,v->w, each rendered in every '
        'documented spelling (dict, \'u:v,p:q\' string, sequence of \'u:v\' strings, sequence of pairs, Argument objects as keys and/or values); argument dictionaries. oracle: eval(replace(f,{x:g}),A) == '
        'f evaluated by an independent numpy interpreter at A with x bound to g(A) (simultaneous substitution); all spellings give identical results; linearize(f,\'u:du\')(A) equals the central finite '
        'difference directional derivative; factor(f)(A)==f(A) for polynomial f; derivative has shape f.shape+arg.shape and matches finite differences. Rejection: argument values or replacement arrays whose '
        'shape differs in any way (also broadcastable ones) and values not representable in the argument\'s dtype must raise. non-trivial: map touches >=2 arguments or contains a swap/chain, or the argument '
        'sits inside an integral; distinct = case hash')
ASSUMPTIONS = ['numpy interpretation of the generated expression tree is the meaning of f', 'finite differences of polynomials/smooth functions with 6-point stencils are accurate to 1e-7 relative']

V = [-1.5, -1., -.5, .5, 1., 1.5, 2., .25]
SHAPES = [[], [2], [3], [2, 2], [2, 3], [2, 1, 3], [3, 2, 2]]


@st.composite
def expr(draw, args, depth):
    """expression tree over argument names; every node carries its shape"""
    if depth == 0 or draw(st.integers(0, 3)) == 0:
        name = draw(st.sampled_from(sorted(args)))
        return dict(t='arg', name=name, shape=args[name]['shape'])
    op = draw(st.sampled_from(['add', 'mul', 'scale', 'pow', 'sum', 'index', 'sin', 'outer', 'contract', 'addconst', 'where', 'mirror']))
    if op == 'mirror':
        # a non-commutative node whose two operands are the same expression of two different arguments of equal shape: swapping the arguments mirrors it
        pairs = [(m, n) for m in sorted(args) for n in sorted(args) if m != n and args[m]['shape'] == args[n]['shape']]
        if pairs:
            m, n = draw(st.sampled_from(pairs))
            wrap = draw(st.sampled_from(['none', 'sin', 'scale']))
            def side(name):
                leaf = dict(t='arg', name=name, shape=args[name]['shape'])
                return leaf if wrap == 'none' else dict(t='sin', a=leaf, shape=leaf['shape']) if wrap == 'sin' else dict(t='scale', a=leaf, c=-.5, shape=leaf['shape'])
            return dict(t='mirror', a=side(m), b=side(n), op=draw(st.sampled_from(['arctan2', 'pow'])), shape=args[m]['shape'])
    a = draw(expr(args, depth - 1))
    if op == 'add' or op == 'mul':
        b = draw(expr(args, depth - 1))
        if b['shape'] != a['shape']:
            if not b['shape']: pass
            elif not a['shape']: a, b = b, a
            else: b = dict(t='sum-all', a=b, shape=[])
        return dict(t=op, a=a, b=b, shape=a['shape'])
    if op == 'scale': return dict(t='scale', a=a, c=draw(st.sampled_from(V)), shape=a['shape'])
    if op == 'addconst': return dict(t='addconst', a=a, c=draw(st.sampled_from(V)), shape=a['shape'])
    if op == 'pow': return dict(t='pow', a=a, e=draw(st.sampled_from([2, 2, 3])), shape=a['shape'])
    if op == 'sin': return dict(t='sin', a=a, shape=a['shape'])
    if op == 'where': return dict(t='where', a=a, c=draw(st.sampled_from([-.75, .1, .6])), s=[draw(st.sampled_from([.5, 2., -1.])), draw(st.sampled_from([1., -.5, 3.]))], shape=a['shape'])
    if op == 'sum':
        if not a['shape']: return a
        ax = draw(st.integers(0, len(a['shape']) - 1))
        return dict(t='sum', a=a, axis=ax, shape=[s for i, s in enumerate(a['shape']) if i != ax])
    if op == 'index':
        if not a['shape']: return a
        return dict(t='index', a=a, i=draw(st.integers(0, a['shape'][0] - 1)), shape=a['shape'][1:])
    if op == 'outer':
        b = draw(expr(args, depth - 1))
        if len(a['shape']) + len(b['shape']) > 3: return a
        return dict(t='outer', a=a, b=b, shape=a['shape'] + b['shape'])
    if op == 'contract':
        if not a['shape']: return a
        return dict(t='contract', a=a, w=[draw(st.sampled_from(V)) for _ in range(a['shape'][-1])], shape=a['shape'][:-1])
    return a


def fix_shapes(e):
    t = e['t']
    for k in ('a', 'b'):
        if k in e: fix_shapes(e[k])
    if t == 'sum':
        s = list(e['a']['shape']); del s[e['axis']]; e['shape'] = s
    elif t in ('add', 'mul'):
        e['shape'] = e['a']['shape'] if e['a']['shape'] else e['b']['shape']
    elif t in ('scale', 'addconst', 'pow', 'sin', 'where', 'mirror'):
        e['shape'] = e['a']['shape']
    elif t == 'index': e['shape'] = e['a']['shape'][1:]
    elif t == 'outer': e['shape'] = e['a']['shape'] + e['b']['shape']
    elif t == 'contract': e['shape'] = e['a']['shape'][:-1]
    elif t == 'sum-all': e['shape'] = []
    return e


def ev(e, A, np=numpy):
    """evaluate the tree on a dict of values: numpy arrays (reference) or nutils arrays"""
    t = e['t']
    if t == 'arg': return A[e['name']]
    a = ev(e['a'], A)
    if t == 'add': return a + ev(e['b'], A)
    if t == 'mul': return a * ev(e['b'], A)
    if t == 'scale': return a * e['c']
    if t == 'addconst': return a + e['c']
    if t == 'pow': return a ** e['e']
    if t == 'sin': return numpy.sin(a)
    if t == 'where': return numpy.choose(numpy.greater(a, e['c']), [a * e['s'][0], a * e['s'][1]])      # the operand also sits below a boolean node
    if t == 'sum': return numpy.sum(a, axis=e['axis'])
    if t == 'sum-all': return numpy.sum(a, axis=tuple(range(numpy.ndim(a))))
    if t == 'index': return a[e['i']]
    if t == 'outer':
        b = ev(e['b'], A)
        return a[(...,) + (None,) * numpy.ndim(b)] * b
    if t == 'contract': return numpy.sum(a * numpy.array(e['w']), axis=-1)
    if t == 'mirror':
        b = ev(e['b'], A)
        ha, hb = .25 * a ** 2 + 1., .25 * b ** 2 + 1.      # positive operands: smooth, and far from the branch cut
        return numpy.arctan2(ha, hb) if e['op'] == 'arctan2' else numpy.power(ha, hb)
    raise NotImplementedError(t)


def uses(e, name):
    if e['t'] == 'arg': return e['name'] == name
    return any(uses(e[k], name) for k in ('a', 'b') if k in e)


def polynomial(e):
    if e['t'] in ('sin', 'where', 'mirror'): return False
    return all(polynomial(e[k]) for k in ('a', 'b') if k in e)


@st.composite
def cases(draw, tier):
    nargs = draw(st.integers(1, 4))
    names = ['u', 'v', 'w', 'p'][:nargs]
    same = draw(st.booleans())
    s0 = draw(st.sampled_from(SHAPES))
    args = {}
    for n in names:
        shape = s0 if same else draw(st.sampled_from(SHAPES))
        k = int(numpy.prod(shape)) if shape else 1
        args[n] = dict(shape=shape, value=[draw(st.sampled_from(V)) for _ in range(k)])
    f = fix_shapes(draw(expr(args, 3 if tier == 'quick' else 4)))
    # replacement map
    repl = []
    for n in draw(st.lists(st.sampled_from(names), min_size=1, max_size=3, unique=True)):
        kind = draw(st.sampled_from(['const', 'arg', 'arg', 'expr', 'newarg']))
        cands = [m for m in names if m != n and args[m]['shape'] == args[n]['shape']]
        if kind == 'arg' and cands:
            repl.append([n, dict(kind='arg', name=draw(st.sampled_from(cands)))])
        elif kind == 'expr' and cands:
            repl.append([n, dict(kind='expr', name=draw(st.sampled_from(cands)), c=draw(st.sampled_from(V)))])
        elif kind == 'newarg':
            repl.append([n, dict(kind='newarg', name=n + 'new', value=[draw(st.sampled_from(V)) for _ in range(int(numpy.prod(args[n]['shape'])) if args[n]['shape'] else 1)])])
        else:
            k = int(numpy.prod(args[n]['shape'])) if args[n]['shape'] else 1
            repl.append([n, dict(kind='const', value=[draw(st.sampled_from(V)) for _ in range(k)])])
    swaps = [(m, n) for m in names for n in names if m < n and args[m]['shape'] == args[n]['shape']]
    if swaps and draw(st.integers(0, 3)) == 0:
        m, n = draw(st.sampled_from(swaps))
        repl = [[m, dict(kind='arg', name=n)], [n, dict(kind='arg', name=m)]]      # a plain simultaneous swap
    return dict(args=args, f=f, repl=repl, spelling=draw(st.sampled_from(['dict', 'string', 'strings', 'pairs', 'argkeys', 'argvalues', 'mixed'])), integral=draw(st.integers(0, 3)) == 0,
                direction=[draw(st.sampled_from(V)) for _ in range(12)], wrt=draw(st.sampled_from(names)), bad=draw(st.sampled_from(['leading-axis', 'scalar', 'length1', 'transposed', 'dtype-complex', 'dtype-float-for-int', 'repl-shape'])))


def arr(a):
    return numpy.array(a['value'], dtype=float).reshape(a['shape'])


def render_map(case, fargs):
    """all spellings of the replacement map that can express it; returns list of (name, spec)"""
    from nutils import function
    repl = case['repl']
    def val(n, r, as_obj=False):
        shape = tuple(case['args'][n]['shape'])
        if r['kind'] == 'arg': return function.Argument(r['name'], shape) if as_obj else r['name']
        if r['kind'] == 'newarg': return function.Argument(r['name'], shape) if as_obj else r['name']
        if r['kind'] == 'const': return numpy.array(r['value'], dtype=float).reshape(shape)
        return function.Argument(r['name'], shape) * r['c'] + 1.
    only_names = all(r['kind'] in ('arg', 'newarg') for _, r in repl)
    specs = [('dict', {n: val(n, r) for n, r in repl}), ('pairs', [(n, val(n, r)) for n, r in repl]),
             ('argkeys', [(function.Argument(n, tuple(case['args'][n]['shape'])), val(n, r)) for n, r in repl]),
             ('argvalues', {n: val(n, r, as_obj=True) for n, r in repl})]
    if only_names:
        specs += [('string', ','.join(f'{n}:{val(n, r)}' for n, r in repl)), ('strings', [f'{n}:{val(n, r)}' for n, r in repl]),
                  ('mixed', [(function.Argument(repl[0][0], tuple(case['args'][repl[0][0]]['shape'])), val(*repl[0], as_obj=True))] + [f'{n}:{val(n, r)}' for n, r in repl[1:]])]
    return specs


def check(case, rec):
    from nutils import function, mesh
    args = case['args']
    with warnings.catch_warnings(), numpy.errstate(all='ignore'):
        warnings.simplefilter('ignore')
        A = {n: arr(a) for n, a in args.items()}
        F = {n: function.Argument(n, tuple(a['shape'])) for n, a in args.items()}
        f = ev(case['f'], F)
        if not isinstance(f, function.Array):
            raise Discard('no-argument-used')
        scale = None
        if case['integral']:
            topo, x = mesh.line(3)
            smp = topo.sample('gauss', 2)
            fint = smp.integral(f * x * function.J(x[None]) if True else f)
            geomint = 0.5   # integral of x over [0,1]... mesh.line(3) spans [0,2]: integral of x dx = 2
            w = float(smp.integrate(x * function.J(x[None])))
            target, factor_ = fint, w
        else:
            target, factor_ = f, 1.
        def reference(values):
            return numpy.asarray(ev(case['f'], values)) * factor_
        used = [n for n in args if n in target.arguments]
        # 0. plain evaluation
        got = numpy.asarray(function.eval(target, arguments=A))
        want = reference(A)
        if not numpy.isfinite(want).all() or abs(want).max() > 1e8:
            raise Discard('reference-nonfinite')
        tol = 1e-10 * (1 + abs(want).max())
        if got.shape != want.shape or abs(got - want).max() > tol:
            raise Violation('eval', f'plain evaluation differs: {got.tolist()} vs {want.tolist()}', where='eval')
        # 1. replacement, simultaneous semantics
        repl = [(n, r) for n, r in case['repl']]
        extra = {r['name']: numpy.array(r['value'], dtype=float).reshape(args[n]['shape']) for n, r in repl if r['kind'] == 'newarg'}
        Aall = {**A, **extra}
        bound = dict(Aall)
        for n, r in repl:
            if r['kind'] in ('arg', 'newarg'): bound[n] = Aall[r['name']]
            elif r['kind'] == 'const': bound[n] = numpy.array(r['value'], dtype=float).reshape(args[n]['shape'])
            else: bound[n] = Aall[r['name']] * r['c'] + 1.
        want_r = reference(bound)
        results = {}
        for name, spec in render_map(case, F):
            try:
                g = function.replace_arguments(target, spec)
                val = numpy.asarray(function.eval(g, arguments=Aall))
            except Exception as e:
                raise Violation('replace-raised', f'spelling {name} of {case["repl"]}: {type(e).__name__}: {str(e)[:300]}', where=f'replace:{name}:{type(e).__name__}')
            if val.shape != want_r.shape or abs(val - want_r).max() > 1e-10 * (1 + abs(want_r).max()):
                raise Violation('replace-value', f'spelling {name} of {case["repl"]}: {val.tolist()} != f with the arguments bound simultaneously {want_r.tolist()} (f={_show(case["f"])})', where=f'replace-value:{name}')
            results[name] = val
            # replaced arguments that are not reintroduced must not be required any more
            reintroduced = {r['name'] for n, r in repl if r['kind'] in ('arg', 'expr', 'newarg')}
            needed = {n for n in g.arguments}
            stale = {n for n, r in repl if n in needed and n not in reintroduced and uses(case['f'], n)}
            if stale:
                raise Violation('replace-arguments', f'spelling {name}: replaced argument(s) {sorted(stale)} are still announced by the result', where='replace-arguments:' + name)
        vals = list(results.values())
        if any(not numpy.array_equal(vals[0], v) for v in vals[1:]):
            raise Violation('spellings-differ', f'{ {k: v.tolist() for k, v in results.items()} }', where='spellings')
        rec.label(*('spelling:' + k for k in results))
        # 2. linearize / derivative w.r.t. one argument
        wrt = case['wrt']
        if wrt in target.arguments:
            d = numpy.array(case['direction'][:max(1, int(numpy.prod(args[wrt]['shape'])))], dtype=float).reshape(args[wrt]['shape'])
            lin = function.linearize(target, f'{wrt}:d{wrt}')
            got_l = numpy.asarray(function.eval(lin, arguments={**A, 'd' + wrt: d}))
            def fd(h):
                acc = 0
                for c, m in zip(numpy.array([-1, 9, -45, 0, 45, -9, 1]) / 60., range(-3, 4)):
                    if c: acc = acc + c * reference({**A, wrt: A[wrt] + m * h * d})
                return acc / h
            want_l = fd(1e-2)
            if abs(want_l - fd(5e-3)).max() <= 1e-7 * (1 + abs(want_l).max()):
                if got_l.shape != want_l.shape or abs(got_l - want_l).max() > 1e-6 * (1 + abs(want_l).max()):
                    raise Violation('linearize', f'linearize(f, {wrt}:d{wrt}) = {got_l.tolist()}, directional finite difference {want_l.tolist()} (f={_show(case["f"])})', where='linearize')
                der = function.derivative(target, wrt)
                if tuple(der.shape) != tuple(target.shape) + tuple(args[wrt]['shape']):
                    raise Violation('derivative-shape', f'{der.shape} != {target.shape}+{args[wrt]["shape"]}', where='derivative-shape')
                dv = numpy.asarray(function.eval(der, arguments=A))
                contracted = (dv * d).sum(tuple(range(target.ndim, dv.ndim))) if d.ndim else dv * d
                if abs(contracted - want_l).max() > 1e-6 * (1 + abs(want_l).max()):
                    raise Violation('derivative', f'derivative contracted with the direction {contracted.tolist()} != {want_l.tolist()}', where='derivative')
                rec.label('linearize-checked')
        # 3. factor
        if polynomial(case['f']) and not case['integral'] and _degree(case['f']) <= 3 and target.ndim <= 2:
            try:
                fac = function.factor(target)
                got_f = numpy.asarray(function.eval(fac, arguments=A))
            except Exception as e:
                raise Violation('factor-raised', f'{type(e).__name__}: {str(e)[:300]} for f={_show(case["f"])}', where='factor:' + type(e).__name__)
            if got_f.shape != want.shape or abs(got_f - want).max() > 1e-9 * (1 + abs(want).max()):
                raise Violation('factor', f'factor(f)(A) = {got_f.tolist()} != f(A) = {want.tolist()} (f={_show(case["f"])})', where='factor')
            rec.label('factor-checked')
            # factor(f) equals f as a function of the arguments, so its derivatives are those of f (checked against finite differences above)
            if wrt in target.arguments:
                d = numpy.array(case['direction'][:max(1, int(numpy.prod(args[wrt]['shape'])))], dtype=float).reshape(args[wrt]['shape'])
                try:
                    l_fac = numpy.asarray(function.eval(function.linearize(fac, f'{wrt}:d{wrt}'), arguments={**A, 'd' + wrt: d}))
                    d_fac = numpy.asarray(function.eval(function.derivative(fac, wrt), arguments=A))
                except Exception as e:
                    raise Violation('factor-raised', f'derivative of factor(f): {type(e).__name__}: {str(e)[:300]} for f={_show(case["f"])}', where='factor-derivative:' + type(e).__name__)
                l_ref = numpy.asarray(function.eval(function.linearize(target, f'{wrt}:d{wrt}'), arguments={**A, 'd' + wrt: d}))
                d_ref = numpy.asarray(function.eval(function.derivative(target, wrt), arguments=A))
                if l_fac.shape != l_ref.shape or abs(l_fac - l_ref).max() > 1e-9 * (1 + abs(l_ref).max()):
                    raise Violation('factor-derivative', f'linearize(factor(f), {wrt}) = {l_fac.tolist()} != linearize(f, {wrt}) = {l_ref.tolist()} (f={_show(case["f"])}, argument shape {args[wrt]["shape"]})', where='factor-linearize')
                if d_fac.shape != d_ref.shape or abs(d_fac - d_ref).max() > 1e-9 * (1 + abs(d_ref).max()):
                    raise Violation('factor-derivative', f'derivative(factor(f), {wrt}) differs from derivative(f, {wrt}) by {abs(d_fac - d_ref).max():.3e} (f={_show(case["f"])}, argument shape {args[wrt]["shape"]})', where='factor-derivative')
                rec.label('factor-derivative-checked', 'factor-derivative-argdim=%d' % len(args[wrt]['shape']))
        # 4. rejection of wrong shapes / dtypes
        if used:
            n = used[0]; v = A[n]
            bad = case['bad']
            wrong = None
            if bad == 'leading-axis': wrong = v[None]
            elif bad == 'scalar' and v.ndim: wrong = numpy.float64(1.)
            elif bad == 'length1' and v.ndim: wrong = v[..., :1] if v.shape[-1] > 1 else None
            elif bad == 'transposed' and v.ndim == 2 and v.shape[0] != v.shape[1]: wrong = v.T
            elif bad == 'dtype-complex': wrong = v + 1j
            if wrong is not None and numpy.array_equal(reference({**A, n: v + 1.375}), want):
                # the argument cancels out of the expression (u - u): its value is never read, so there is nothing to broadcast or to reject
                rec.label('rejection-skipped:argument-cancels'); wrong = None
            if wrong is not None:
                try:
                    r = function.eval(target, arguments={**A, n: wrong})
                except Exception:
                    rec.label('rejected:' + bad)
                else:
                    raise Violation('bad-argument-accepted', f'argument {n} of shape {v.shape} given a value of shape {numpy.shape(wrong)} dtype {numpy.asarray(wrong).dtype}: evaluated to {numpy.asarray(r).tolist()}', where='accepted:' + bad)
                # the same for a function that is compiled once and called repeatedly (as the solvers do): the check belongs to every call, not to the first
                from nutils import evaluable
                compiled = evaluable.compile(target.as_evaluable_array)
                first = numpy.asarray(compiled(dict(A)))
                try:
                    r = compiled({**A, n: wrong})
                except Exception:
                    rec.label('rejected-on-later-call:' + bad)
                else:
                    raise Violation('bad-argument-accepted', f'compiled function, second call: argument {n} of shape {v.shape} given a value of shape {numpy.shape(wrong)} dtype {numpy.asarray(wrong).dtype}: evaluated to {numpy.asarray(r).tolist()}', where='accepted-later-call:' + bad)
                again = numpy.asarray(compiled(dict(A)))
                if again.shape != first.shape or not numpy.array_equal(again, first, equal_nan=True):
                    raise Violation('eval', f'compiled function gives {again.tolist()} after a rejected call, {first.tolist()} before', where='eval:after-rejection')
            if bad == 'dtype-float-for-int':
                m = function.Argument('m', (2,), dtype=int)
                try:
                    r = function.eval(m * 2, arguments=dict(m=numpy.array([1.5, 2.5])))
                except Exception:
                    rec.label('rejected:' + bad)
                else:
                    raise Violation('bad-argument-accepted', f'int argument given [1.5, 2.5] evaluated to {numpy.asarray(r).tolist()}', where='accepted:' + bad)
            if bad == 'repl-shape' and v.ndim:
                try:
                    function.replace_arguments(target, {n: v[None]})
                except Exception:
                    rec.label('rejected:' + bad)
                else:
                    raise Violation('bad-replacement-accepted', f'replacement of shape {v[None].shape} for argument of shape {v.shape} accepted', where='accepted:' + bad)
    names = [n for n, r in repl]
    targets = [r.get('name') for n, r in repl]
    swap_or_chain = any(t in names for t in targets)
    rec.nontrivial = len(repl) >= 2 or swap_or_chain or case['integral']
    if swap_or_chain: rec.label('swap-or-chain')
    if case['integral']: rec.label('inside-integral')


def _degree(e):
    t = e['t']
    if t == 'arg': return 1
    if t in ('add',): return max(_degree(e['a']), _degree(e['b']))
    if t in ('mul', 'outer'): return _degree(e['a']) + _degree(e['b'])
    if t == 'pow': return _degree(e['a']) * e['e']
    return _degree(e['a'])


def _show(e):
    t = e['t']
    if t == 'arg': return e['name']
    if t in ('add', 'mul', 'outer', 'mirror'): return f'{t if t != "mirror" else e["op"] + "*"}({_show(e["a"])},{_show(e["b"])})'
    extra = {'scale': 'c', 'addconst': 'c', 'pow': 'e', 'sum': 'axis', 'index': 'i'}.get(t)
    return f'{t}({_show(e["a"])}' + (f',{e[extra]}' if extra else '') + ')'


# ---- function.field / dotarg: inner product of the first axes of the arrays with an argument -----------------------------------

@st.composite
def field_cases(draw, tier):
    narr = draw(st.integers(1, 3))
    arrays = []
    for _ in range(narr):
        n = draw(st.integers(1, 3)); trail = draw(st.sampled_from([[], [], [2], [3], [2, 3], [2]]))
        arrays.append(dict(shape=[n] + trail, v=[draw(st.sampled_from(V)) for _ in range(n * int(numpy.prod(trail)) if trail else n)]))
    shape = draw(st.sampled_from([[], [], [2], [3], [2, 2]]))
    nargs = int(numpy.prod([a['shape'][0] for a in arrays])) * (int(numpy.prod(shape)) if shape else 1)
    return dict(arrays=arrays, shape=shape, value=[draw(st.sampled_from(V)) for _ in range(nargs)], how=draw(st.sampled_from(['field', 'dotarg', 'field-replace', 'field-derivative'])), points=draw(st.booleans()))


def check_field(case, rec):
    """field(name, A1, ..., Ak, shape=s) is the argument of shape (n1, .., nk) + s contracted with the first axis of every array, the remaining axes of
    the arrays appended in the order of the arrays: result shape s + A1.shape[1:] + ... + Ak.shape[1:]"""
    from nutils import function, mesh
    with warnings.catch_warnings(), numpy.errstate(all='ignore'):
        warnings.simplefilter('ignore')
        arrs = [numpy.array(a['v'], dtype=float).reshape(a['shape']) for a in case['arrays']]
        s = tuple(case['shape'])
        argshape = tuple(a.shape[0] for a in arrs) + s
        U = numpy.array(case['value'], dtype=float).reshape(argshape)
        # reference: contract axis by axis
        want = U
        for a in arrs:
            want = numpy.tensordot(want, a, axes=([0], [0]))      # removes the leading dof axis, appends a.shape[1:]
        scale = 1.
        nut = [function.Array.cast(a) for a in arrs]
        if case['points']:
            topo, x = mesh.line(2)
            smp = topo.sample('gauss', 1)
            nut = [a * (1 + x) if i == 0 else a for i, a in enumerate(nut)]
        how = case['how']
        try:
            if how == 'dotarg' and len(arrs) == 1:
                f = function.dotarg('u', nut[0], shape=s)
            else:
                f = function.field('u', *nut, shape=s)
            if how == 'field-replace':
                f = function.replace_arguments(f, dict(u=function.Argument('w', argshape) * 2.)); args = dict(w=U / 2.)
            else:
                args = dict(u=U)
            if tuple(f.shape) != want.shape:
                raise Violation('field-shape', f'field with arrays {[a.shape for a in arrs]} shape={s}: announced shape {tuple(f.shape)}, documented {want.shape}', where='field:shape')
            if tuple(f.arguments[('w' if how == 'field-replace' else 'u')][0]) != argshape:
                raise Violation('field-argument', f'argument shape {f.arguments} expected {argshape}', where='field:argument')
            if how == 'field-derivative':
                d = function.derivative(f, 'u')
                got = numpy.asarray(smp.eval(d, arguments=args)) if case['points'] else numpy.asarray(function.eval(d, arguments=args))[None]
                # f is linear in u: derivative contracted with u gives f
                got = numpy.stack([numpy.tensordot(g, U, axes=(list(range(want.ndim, want.ndim + U.ndim)), list(range(U.ndim)))) for g in got])
            else:
                got = numpy.asarray(smp.eval(f, arguments=args)) if case['points'] else numpy.asarray(function.eval(f, arguments=args))[None]
        except Violation:
            raise
        except Exception as e:
            raise Violation('field-raised', f'{how} with arrays {[a.shape for a in arrs]} shape={s}: {type(e).__name__}: {str(e)[:200]}', where='field:' + type(e).__name__)
        if case['points']:
            X = numpy.asarray(smp.eval(x)).reshape(-1)
            ref = numpy.stack([want * (1 + xp) for xp in X])
        else:
            ref = want[None]
        if got.shape != ref.shape or abs(got - ref).max() > 1e-11 * (1 + abs(ref).max()):
            raise Violation('field-value', f'{how} with arrays {[a.shape for a in arrs]} shape={s} points={case["points"]}: {got.tolist()} != {ref.tolist()}', where='field:value')
    rec.nontrivial = sum(1 for a in arrs if a.ndim > 1) >= 2 or bool(s)
    rec.label('field:' + how, 'field-arrays=%d' % len(arrs), *(['field:two-arrays-with-trailing-axes'] if sum(1 for a in arrs if a.ndim > 1) >= 2 else []))


SUBS = [Sub('arguments', cases, check, {'quick': 300, 'thorough': 6000}, weight=4, timeout=120),
        Sub('field', field_cases, check_field, {'quick': 300, 'thorough': 5000}, weight=1, timeout=60)]

TRIGGERS = {}

MANIFEST = dict(
    category='exploration',
    technique='property-based testing (Hypothesis): generated function arrays and replacement maps in all documented spellings; metamorphic oracle replace/eval commutation against an independent numpy interpreter; finite-difference oracle for linearize/derivative; factor round trip; rejection tests',
    text='For generated function arrays over 1-4 arguments (also inside an integral), replace_arguments in every documented spelling must evaluate to f with the arguments bound simultaneously (swaps and chains included) and all spellings must agree; '
         'linearize and derivative must match directional finite differences of the numpy interpretation; factor(f) must evaluate to f; argument values or replacements of any other shape, or not representable in the argument dtype, must raise. Held on everything explored.',
    note='Trusted: numpy interpretation of the generated tree; finite differences validated by step halving; Hypothesis.',
)
