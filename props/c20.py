"""C20 — Physical dimensions are tracked soundly (DESIGN.md §4 C20)."""
import numpy, fractions, operator, math, pickle, warnings
from hypothesis import strategies as st
from vlib.core import Sub, Violation, Discard

PROPERTY = 'C20'
LEVEL = 'exploration'
BUDGET = {'quick': 40, 'thorough': 400}
SHARDS = {'quick': 8, 'thorough': 16}
RULE = ('cases: (algebra) programs over dimensional quantities = (exponent vector over the 7 base dimensions incl. fractions, scalar/array value): '
        '* / ** sqrt + - neg abs % hypot min max comparisons stack concatenate sum mean ptp trace norm max min getitem setitem reshape transpose '
        'broadcast_to take interp real imag conjugate, checked against an exponent-vector model and the same computation on plain numbers; '
        'operations that mix dimensions must raise DimensionError/TypeError. (parse) unit strings generated from the documented grammar (number, '
        'prefix, unit, integer or fractional power, * and /) parsed by SI.parse and compared with an independent table of SI definitions; '
        'format(parse(v+u), .d+u) round trip; Dimension name/pickle round trip. (unit) nutils.unit systems: parse, wrong-dimension rejection, '
        'dumps/loads round trip, prefix/unit ambiguity. (dispatch) grad/div/laplace/jacobian/integral/field on dimensional geometries. '
        'non-trivial: >=2 operations and >=2 distinct non-trivial dimensions, or a fractional power, or a unit string with prefix and power; distinct = case hash')
ASSUMPTIONS = ['the independent SI table in this module (base units, derived units, prefixes) is correct', 'plain numpy arithmetic is the value reference',
               'Quantity.unwrap() exposes the value in reference units (documented advanced API)']

BASE = ['T', 'L', 'M', 'I', 'θ', 'N', 'J']
# independent table: unit -> (scale in reference units m,s,kg,A,K,mol,cd ; exponents T,L,M,I,θ,N,J)
U = {
    'm': (1., (0, 1, 0, 0, 0, 0, 0)), 's': (1., (1, 0, 0, 0, 0, 0, 0)), 'g': (1e-3, (0, 0, 1, 0, 0, 0, 0)), 'A': (1., (0, 0, 0, 1, 0, 0, 0)),
    'K': (1., (0, 0, 0, 0, 1, 0, 0)), 'mol': (1., (0, 0, 0, 0, 0, 1, 0)), 'cd': (1., (0, 0, 0, 0, 0, 0, 1)),
    'N': (1., (-2, 1, 1, 0, 0, 0, 0)), 'Pa': (1., (-2, -1, 1, 0, 0, 0, 0)), 'J': (1., (-2, 2, 1, 0, 0, 0, 0)), 'W': (1., (-3, 2, 1, 0, 0, 0, 0)),
    'Hz': (1., (-1, 0, 0, 0, 0, 0, 0)), 'C': (1., (1, 0, 0, 1, 0, 0, 0)), 'V': (1., (-3, 2, 1, -1, 0, 0, 0)), 'F': (1., (4, -2, -1, 2, 0, 0, 0)),
    'Ω': (1., (-3, 2, 1, -2, 0, 0, 0)), 'S': (1., (3, -2, -1, 2, 0, 0, 0)), 'Wb': (1., (-2, 2, 1, -1, 0, 0, 0)), 'T': (1., (-2, 0, 1, -1, 0, 0, 0)),
    'H': (1., (-2, 2, 1, -2, 0, 0, 0)), 'lm': (1., (0, 0, 0, 0, 0, 0, 1)), 'lx': (1., (0, -2, 0, 0, 0, 0, 1)), 'Bq': (1., (-1, 0, 0, 0, 0, 0, 0)),
    'Gy': (1., (-2, 2, 0, 0, 0, 0, 0)), 'Sv': (1., (-2, 2, 0, 0, 0, 0, 0)), 'kat': (1., (-1, 0, 0, 0, 0, 1, 0)),
    'min': (60., (1, 0, 0, 0, 0, 0, 0)), 'h': (3600., (1, 0, 0, 0, 0, 0, 0)), 'day': (86400., (1, 0, 0, 0, 0, 0, 0)),
    'L': (1e-3, (0, 3, 0, 0, 0, 0, 0)), 't': (1e3, (0, 0, 1, 0, 0, 0, 0)), 'ha': (1e4, (0, 2, 0, 0, 0, 0, 0)), 'au': (149597870700., (0, 1, 0, 0, 0, 0, 0)),
    'eV': (1.602176634e-19, (-2, 2, 1, 0, 0, 0, 0)),
}
PREFIX = dict(Y=1e24, Z=1e21, E=1e18, P=1e15, T=1e12, G=1e9, M=1e6, k=1e3, h=1e2, d=1e-1, c=1e-2, m=1e-3, μ=1e-6, n=1e-9, p=1e-12, f=1e-15, a=1e-18, z=1e-21, y=1e-24)
# prefix+unit combinations that collide with a unit name are resolved "unit first" by construction of the table: avoid generating ambiguous ones
AMBIGUOUS = {p + u for p in PREFIX for u in U} & set(U)


def SI():
    with warnings.catch_warnings():
        warnings.simplefilter('ignore')
        from nutils import SI
    return SI


def dim_of(exps):
    S = SI()
    return S.Dimension.from_powers({b: fractions.Fraction(e) for b, e in zip(BASE, exps)})


# ---------------------------------------------------------------------------------------------
# algebra programs

EXPS = [fractions.Fraction(n, d) for n in range(-3, 4) for d in (1, 2)]


@st.composite
def exps(draw):
    kind = draw(st.sampled_from(['zero', 'one', 'one', 'two', 'frac']))
    e = [0] * 7
    if kind == 'zero':
        return e
    idx = draw(st.permutations(list(range(7))))
    if kind == 'one':
        e[idx[0]] = draw(st.sampled_from([1, 1, 2, -1, 3, -2]))
    elif kind == 'two':
        e[idx[0]] = draw(st.sampled_from([1, 2, -1])); e[idx[1]] = draw(st.sampled_from([1, -1, -2]))
    else:
        e[idx[0]] = draw(st.sampled_from(['1/2', '-1/2', '3/2'])); e[idx[1]] = draw(st.sampled_from([0, 1, -1]))
    return [str(x) for x in e]


VALS = [0.5, 1.0, 2.0, -1.5, 3.0, 0.25, -2.0, 4.0, 1.5]


@st.composite
def algebra_cases(draw, tier):
    nleaves = draw(st.integers(1, 3))
    shape = draw(st.sampled_from([[], [], [3], [2, 3], [2, 2]]))
    n = int(numpy.prod(shape)) if shape else 1
    leaves = []
    for i in range(nleaves):
        same = leaves and draw(st.integers(0, 2)) == 0
        e = leaves[0]['exps'] if same else draw(exps())
        leaves.append(dict(exps=[str(x) for x in e], value=[draw(st.sampled_from(VALS)) for _ in range(n)], shape=shape))
    nops = draw(st.integers(1, 4 if tier == 'quick' else 8))
    ops = []
    for _ in range(nops):
        op = draw(st.sampled_from(['mul', 'div', 'pow', 'sqrt', 'add', 'sub', 'neg', 'abs', 'mod', 'hypot', 'maximum', 'minimum', 'lt', 'le', 'gt', 'ge', 'eq', 'ne',
                                   'np_equal', 'np_less', 'stack', 'concatenate', 'sum', 'mean', 'ptp', 'trace', 'norm', 'max', 'min', 'getitem', 'setitem', 'reshape',
                                   'transpose', 'broadcast_to', 'take', 'interp', 'real', 'imag', 'conjugate', 'rmul', 'rdiv', 'np_multiply', 'np_divide', 'np_power', 'np_add',
                                   'divstr', 'iter', 'isfinite', 'shape', 'np_negative', 'amax', 'matmul', 'pos']))
        o = dict(op=op, a=draw(st.integers(0, 9)), b=draw(st.integers(0, 9)))
        if op in ('pow', 'np_power'):
            o['e'] = draw(st.sampled_from(['2', '3', '-1', '1/2', '0', '-2', '3/2', '1']))
        if op in ('rmul', 'rdiv'):
            o['s'] = draw(st.sampled_from([2.0, -0.5, 3]))
        if op == 'getitem' or op == 'setitem' or op == 'take':
            o['i'] = draw(st.integers(0, 5))
        ops.append(o)
    return dict(leaves=leaves, ops=ops)


def F(x):
    return fractions.Fraction(x)


def check_algebra(case, rec):
    S = SI()
    pool = []   # (quantity-or-plain, exps list[Fraction], plain numpy value)
    for l in case['leaves']:
        e = [F(x) for x in l['exps']]
        v = numpy.array(l['value'], dtype=float).reshape(l['shape']) if l['shape'] else float(l['value'][0])
        q = dim_of(e).wrap(v.copy() if isinstance(v, numpy.ndarray) else v)
        pool.append((q, e, v))
    dims_seen = set()
    frac = False
    nops = 0

    def verify(res, e, v, what):
        expect_dimless = not any(e)
        if expect_dimless:
            if isinstance(res, S.Quantity):
                raise Violation('dimension', f'{what}: expected a plain number, got {type(res).__name__}', where=what.split(' ')[0])
            got = res
        else:
            if not isinstance(res, S.Quantity):
                raise Violation('dimension', f'{what}: expected dimension {dim_of(e).__name__}, got plain {type(res).__name__}', where=what.split(' ')[0])
            if type(res) is not dim_of(e):
                raise Violation('dimension', f'{what}: expected dimension {dim_of(e).__name__}, got {type(res).__name__}', where=what.split(' ')[0])
            got = res.unwrap()
        got = numpy.asarray(got); want = numpy.asarray(v)
        if got.shape != want.shape or not numpy.allclose(got, want, rtol=1e-12, atol=1e-300, equal_nan=True):
            raise Violation('value', f'{what}: value {got.tolist()} != plain computation {want.tolist()}', where=what.split(' ')[0])

    def must_raise(fn, what):
        try:
            r = fn()
        except (S.DimensionError, TypeError):
            rec.label('rejected:' + what.split(' ')[0])
            return
        except Exception as e:
            raise Violation('wrong-exception', f'{what}: raised {type(e).__name__}: {e} instead of DimensionError/TypeError', where=what.split(' ')[0])
        raise Violation('mixed-dimension-accepted', f'{what}: returned {r!r}', where=what.split(' ')[0])

    for o in case['ops']:
        op = o['op']
        (qa, ea, va) = pool[o['a'] % len(pool)]
        (qb, eb, vb) = pool[o['b'] % len(pool)]
        same = ea == eb
        what = f'{op} [{dim_of(ea).__name__}],[{dim_of(eb).__name__}]'
        isarr = isinstance(va, numpy.ndarray)
        with numpy.errstate(all='ignore'), warnings.catch_warnings():
            warnings.simplefilter('ignore')
            try:
                res = None
                if op in ('mul', 'np_multiply', 'matmul'):
                    if numpy.shape(va) != numpy.shape(vb): continue
                    if op == 'matmul':
                        if numpy.ndim(va) != 2 or va.shape[0] != va.shape[1]: continue
                        res = qa @ qb; v = va @ vb
                    else:
                        res = qa * qb if op == 'mul' else numpy.multiply(qa, qb); v = va * vb
                    e = [x + y for x, y in zip(ea, eb)]
                elif op in ('div', 'np_divide'):
                    if numpy.shape(va) != numpy.shape(vb): continue
                    res = qa / qb if op == 'div' else numpy.divide(qa, qb); v = va / vb
                    e = [x - y for x, y in zip(ea, eb)]
                elif op in ('pow', 'np_power'):
                    p = F(o['e'])
                    pe = int(p) if p.denominator == 1 else float(p)
                    if p.denominator != 1:
                        base_v = numpy.abs(va); qa_ = abs(qa) if any(ea) else numpy.abs(qa)
                    else:
                        base_v = va; qa_ = qa
                    if not any(ea): continue   # plain ** is not nutils' business
                    res = qa_ ** pe if op == 'pow' else numpy.power(qa_, pe)
                    v = base_v ** float(p) if p.denominator != 1 else base_v ** int(p)
                    e = [x * p for x in ea]
                    if p.denominator != 1: frac = True
                elif op == 'sqrt':
                    if not any(ea): continue
                    res = numpy.sqrt(abs(qa)); v = numpy.sqrt(numpy.abs(va)); e = [x / 2 for x in ea]; frac = True
                elif op in ('add', 'sub', 'mod', 'hypot', 'maximum', 'minimum', 'np_add'):
                    if numpy.shape(va) != numpy.shape(vb): continue
                    if not any(ea) and not any(eb): continue
                    fn = {'add': operator.add, 'sub': operator.sub, 'mod': operator.mod, 'hypot': numpy.hypot, 'maximum': numpy.maximum, 'minimum': numpy.minimum, 'np_add': numpy.add}[op]
                    if not same:
                        must_raise(lambda: fn(qa, qb), what); continue
                    res = fn(qa, qb); v = fn(va, vb); e = ea
                elif op in ('lt', 'le', 'gt', 'ge', 'np_less'):
                    if numpy.shape(va) != numpy.shape(vb): continue
                    if not any(ea) and not any(eb): continue
                    fn = {'lt': operator.lt, 'le': operator.le, 'gt': operator.gt, 'ge': operator.ge, 'np_less': numpy.less}[op]
                    if not same:
                        must_raise(lambda: fn(qa, qb), what); continue
                    res = fn(qa, qb); v = fn(va, vb); e = [F(0)] * 7
                elif op in ('eq', 'ne', 'np_equal'):
                    if numpy.shape(va) != numpy.shape(vb): continue
                    if not any(ea) and not any(eb): continue
                    if not same:
                        if op == 'np_equal':
                            must_raise(lambda: numpy.equal(qa, qb), what); continue
                        try:
                            r = (qa == qb) if op == 'eq' else (qa != qb)
                        except (S.DimensionError, TypeError):
                            rec.label('rejected:' + op); continue   # rejecting is fine as well (happens via numpy's reflected ufunc)
                        # python turns NotImplemented into identity comparison: must never report equality
                        if numpy.any(r) if op == 'eq' else not numpy.all(r):
                            raise Violation('mixed-dimension-equal', f'{what}: {r!r}', where=op)
                        continue
                    fn = {'eq': operator.eq, 'ne': operator.ne, 'np_equal': numpy.equal}[op]
                    res = fn(qa, qb); v = fn(va, vb); e = [F(0)] * 7
                elif op in ('neg', 'abs', 'np_negative', 'pos'):
                    if not any(ea): continue
                    res = {'neg': operator.neg, 'abs': abs, 'np_negative': numpy.negative, 'pos': operator.pos}[op](qa)
                    v = {'neg': operator.neg, 'abs': numpy.abs, 'np_negative': numpy.negative, 'pos': operator.pos}[op](va); e = ea
                elif op in ('stack', 'concatenate'):
                    if not isarr or numpy.shape(va) != numpy.shape(vb): continue
                    if not any(ea) and not any(eb): continue
                    fn = getattr(numpy, op)
                    if not same:
                        must_raise(lambda: fn([qa, qb]), what); continue
                    res = fn([qa, qb]); v = fn([va, vb]); e = ea
                elif op in ('sum', 'mean', 'ptp', 'max', 'min', 'amax'):
                    if not isarr or not any(ea): continue
                    fn = getattr(numpy, op); res = fn(qa); v = fn(va); e = ea
                elif op == 'trace':
                    if not isarr or va.ndim != 2 or not any(ea): continue
                    res = numpy.trace(qa); v = numpy.trace(va); e = ea
                elif op == 'norm':
                    if not isarr or not any(ea): continue
                    res = numpy.linalg.norm(qa); v = numpy.linalg.norm(va); e = ea
                elif op == 'getitem':
                    if not isarr or not any(ea): continue
                    i = o['i'] % va.shape[0]; res = qa[i]; v = va[i]; e = ea
                elif op == 'take':
                    if not isarr or not any(ea): continue
                    i = o['i'] % va.shape[0]; res = numpy.take(qa, [i, 0], axis=0); v = numpy.take(va, [i, 0], axis=0); e = ea
                elif op == 'setitem':
                    if not isarr or not any(ea): continue
                    i = o['i'] % va.shape[0]
                    qc = dim_of(ea).wrap(va.copy()); vc = va.copy()
                    src_q = qb[0] if isinstance(vb, numpy.ndarray) and any(eb) else (qb if not isinstance(vb, numpy.ndarray) else None)
                    if src_q is None: continue
                    src_v = vb[0] if isinstance(vb, numpy.ndarray) else vb
                    if numpy.ndim(src_v) and numpy.shape(src_v) != vc[i].shape: continue
                    if not same:
                        def f():
                            qc[i] = src_q
                        must_raise(f, what)
                        verify(qc, ea, va, what + ' (target after rejected assignment)')
                        continue
                    qc[i] = src_q; vc[i] = src_v; res = qc; v = vc; e = ea
                elif op == 'reshape':
                    if not isarr or not any(ea): continue
                    res = numpy.reshape(qa, (-1,)); v = va.reshape(-1); e = ea
                elif op == 'transpose':
                    if not isarr or not any(ea): continue
                    res = numpy.transpose(qa); v = va.T; e = ea
                elif op == 'broadcast_to':
                    if not any(ea): continue
                    shp = (2,) + numpy.shape(va); res = numpy.broadcast_to(qa, shp); v = numpy.broadcast_to(va, shp); e = ea
                elif op == 'interp':
                    if not any(ea) or not isarr or va.ndim != 1: continue
                    xp = numpy.sort(va);
                    if numpy.any(numpy.diff(xp) <= 0): continue
                    if not isinstance(vb, numpy.ndarray) or vb.shape != va.shape: continue
                    x = (xp[0] + xp[-1]) / 2
                    qx = dim_of(ea).wrap(x); qxp = dim_of(ea).wrap(xp)
                    res = numpy.interp(qx, qxp, qb); v = numpy.interp(x, xp, vb); e = eb
                    other = [F(1) if i == 0 else F(0) for i in range(7)]
                    if ea != other:
                        must_raise(lambda: numpy.interp(dim_of(other).wrap(x), qxp, qb), what + ' mixed x')
                elif op in ('real', 'imag', 'conjugate'):
                    if not any(ea): continue
                    fn = getattr(numpy, op); res = fn(qa); v = fn(va); e = ea
                elif op == 'rmul':
                    if not any(ea): continue
                    res = o['s'] * qa; v = o['s'] * va; e = ea
                elif op == 'rdiv':
                    if not any(ea): continue
                    res = o['s'] / qa; v = o['s'] / va; e = [-x for x in ea]
                elif op == 'divstr':
                    continue
                elif op == 'iter':
                    if not isarr or not any(ea): continue
                    items = list(qa)
                    if len(items) != len(va):
                        raise Violation('iter', f'{what}: {len(items)} items for length {len(va)}', where='iter')
                    for it, vv in zip(items, va):
                        verify(it, ea, vv, what)
                    continue
                elif op == 'isfinite':
                    if not any(ea): continue
                    res = numpy.isfinite(qa); v = numpy.isfinite(va); e = [F(0)] * 7
                elif op == 'shape':
                    if not any(ea): continue
                    if numpy.shape(qa) != numpy.shape(va) or numpy.ndim(qa) != numpy.ndim(va) or numpy.size(qa) != numpy.size(va):
                        raise Violation('shape', f'{what}', where='shape')
                    continue
                else:
                    continue
            except Violation:
                raise
            except ZeroDivisionError:
                continue   # plain python floats raise here as well: outside the domain
            except Exception as ex:
                raise Violation('op-raised', f'{what}: {type(ex).__name__}: {ex}', where=op + ':' + type(ex).__name__)
        if not numpy.all(numpy.isfinite(numpy.asarray(v, dtype=complex))):
            continue
        if any(abs(x.numerator) > 12 or x.denominator > 8 for x in e):
            continue
        verify(res, e, v, what)
        nops += 1
        rec.label('op:' + op)
        if any(e):
            dims_seen.add(tuple(e))
        pool.append((res, e, v if not isinstance(v, numpy.ndarray) else v.copy()))
    rec.nontrivial = (nops >= 2 and len(dims_seen) >= 2) or frac


# ---------------------------------------------------------------------------------------------
# unit strings

@st.composite
def factor(draw):
    u = draw(st.sampled_from(sorted(U)))
    p = draw(st.sampled_from([''] * 3 + sorted(PREFIX)))
    if p + u in AMBIGUOUS or (p and u in ('min', 'h', 'day', 'au', 'ha', 'L', 't', 'eV', 'in')) and draw(st.booleans()):
        p = ''
    power = draw(st.sampled_from(['', '', '2', '3', '1_2', '3_2', '1', '2_3']))
    return dict(p=p, u=u, pow=power)


@st.composite
def parse_cases(draw, tier):
    n = draw(st.integers(1, 3 if tier == 'quick' else 5))
    facs = [draw(factor()) for _ in range(n)]
    seps = [draw(st.sampled_from(['*', '/'])) for _ in range(n)]
    num = draw(st.sampled_from(['', '2', '2.5', '0.125', '10', '-3', '7', '.5']))
    decimals = draw(st.integers(0, 4))
    return dict(num=num, facs=facs, seps=seps, d=decimals, lead=draw(st.sampled_from(['', '', '/'])) if not num else '')


def render(case):
    s = case['num']
    for i, (f, sep) in enumerate(zip(case['facs'], case['seps'])):
        if i == 0:
            s += ('/' if case['lead'] == '/' else ('*' if case['num'] and False else ''))
        else:
            s += sep
        s += f['p'] + f['u'] + f['pow']
    return s


def model_parse(case):
    val = float(case['num'] or 1)
    e = [F(0)] * 7
    for i, (f, sep) in enumerate(zip(case['facs'], case['seps'])):
        isnumer = (sep == '*') if i else case['lead'] != '/'
        scale, ue = U[f['u']]
        scale *= PREFIX.get(f['p'], 1.) if f['p'] else 1.
        pw = F(f['pow'].replace('_', '/')) if f['pow'] else F(1)
        x = scale ** float(pw)
        val = val * x if isnumer else val / x
        e = [a + (b * pw if isnumer else -b * pw) for a, b in zip(e, ue)]
    return val, e


def check_parse(case, rec):
    S = SI()
    s = render(case)
    val, e = model_parse(case)
    try:
        q = S.parse(s)
    except Exception as ex:
        raise Violation('parse-raised', f'{s!r}: {type(ex).__name__}: {ex}', where='parse:' + type(ex).__name__)
    if any(e):
        if type(q) is not dim_of(e):
            raise Violation('parse-dimension', f'{s!r}: parsed as {type(q).__name__}, expected {dim_of(e).__name__}', where='parse-dimension')
        got = q.unwrap()
    else:
        if isinstance(q, S.Quantity):
            raise Violation('parse-dimension', f'{s!r}: parsed as {type(q).__name__}, expected dimensionless', where='parse-dimension')
        got = q
    if not math.isclose(got, val, rel_tol=1e-9):
        raise Violation('parse-value', f'{s!r}: value {got!r} in reference units, expected {val!r}', where='parse-value')
    if any(e):
        # typed constructor: right dimension accepted, wrong dimension rejected
        D = dim_of(e)
        if D(s) != q:
            raise Violation('typed-constructor', f'{D.__name__}({s!r}) != parse', where='typed')
        wrong = list(e); wrong[0] += 1
        try:
            dim_of(wrong)(s)
        except S.DimensionError:
            pass
        else:
            raise Violation('wrong-dimension-accepted', f'{dim_of(wrong).__name__}({s!r}) accepted', where='typed')
        # name/pickle round trip of the dimension and the quantity
        D2 = getattr(S.Quantity, D.__name__)
        if D2 is not D:
            raise Violation('dimension-name-roundtrip', f'{D.__name__} -> {D2.__name__}', where='name')
        q2 = pickle.loads(pickle.dumps(q))
        if type(q2) is not D or q2.unwrap() != q.unwrap():
            raise Violation('pickle', f'{s!r}: {q2!r}', where='pickle')
        # format round trip in the units of the string (number part removed)
        d = case['d']
        ustr = s[len(case['num']):]
        if ustr and not ustr.startswith('/') and val and 1e-6 < abs(val) < 1e12:
            v0 = float(case['num'] or 1)
            txt = format(q, f'.{d}{ustr}')
            want = f'{v0:.{d}f}{ustr}'
            # tolerate one unit in the last printed decimal only when the division is inexact
            if txt != want:
                num = txt[:len(txt) - len(ustr)]
                if not txt.endswith(ustr) or abs(float(num) - float(want[:len(want) - len(ustr)])) > 10 ** -d * 1.0000001 or abs(float(num) - v0) > 0.5000001 * 10 ** -d + 1e-9 * abs(v0):
                    raise Violation('format-roundtrip', f'format(parse({s!r}), ".{d}{ustr}") = {txt!r}, expected {want!r}', where='format')
            rec.label('format-checked')
    rec.nontrivial = any(f['p'] and f['pow'] for f in case['facs']) or any('_' in f['pow'] for f in case['facs'])
    for f in case['facs']:
        if f['p']: rec.label('prefix')
        if '_' in f['pow']: rec.label('fractional-power')


# ---------------------------------------------------------------------------------------------
# nutils.unit systems

@st.composite
def unit_cases(draw, tier):
    n = draw(st.integers(1, 3))
    names = ['m', 's', 'g', 'N', 'Pa', 'J', 'min', 'mol', 'K']
    facs = [dict(p=draw(st.sampled_from(['', '', 'k', 'm', 'μ', 'c', 'M'])), u=draw(st.sampled_from(names)), pow=draw(st.sampled_from(['', '', '2', '3']))) for _ in range(n)]
    seps = [draw(st.sampled_from(['*', '/'])) for _ in range(n)]
    return dict(num=draw(st.sampled_from(['', '2', '2.5', '0.125', '10', '7'])), facs=facs, seps=seps, lead='', d=0, v=draw(st.sampled_from([0.5, 1.0, 2.0, 1234.5, 1e-4, 3e6, 0.001])))


def check_unit(case, rec):
    with warnings.catch_warnings():
        warnings.simplefilter('ignore')
        from nutils import unit
    Usys = unit.create(m=1, s=1, g=1e-3, K=1, mol=1, N='kg*m/s2', Pa='N/m2', J='N*m', min='60s')
    for f in case['facs']:
        if f['p'] + f['u'] in ('min', 'mol', 'mm') and f['p']:
            pass
    s = render(case)
    val, e = model_parse(case)
    # prefix/unit ambiguity: "min" is the minute (unit first), "mol" the mole
    try:
        got = Usys(s)
    except Exception as ex:
        raise Violation('unit-parse-raised', f'{s!r}: {type(ex).__name__}: {ex}', where='unit-parse:' + type(ex).__name__)
    if not isinstance(got, float) or not math.isclose(got, val, rel_tol=1e-9):
        raise Violation('unit-value', f'{s!r}: {got!r}, expected {val!r}', where='unit-value')
    ustr = s[len(case['num']):]
    bound = Usys[ustr]
    if not math.isclose(bound(s), val, rel_tol=1e-9):
        raise Violation('unit-bound-value', f'{s!r}', where='unit-value')
    # wrong dimension rejected
    other = 'm' if [x for x in e] != [F(0), F(1), F(0), F(0), F(0), F(0), F(0)] else 's'
    try:
        Usys[other](s)
    except ValueError:
        pass
    else:
        raise Violation('unit-wrong-dimension-accepted', f'unit[{other!r}]({s!r}) accepted', where='unit-dimension')
    # dumps/loads
    v = case['v']
    try:
        txt = bound.__stringly_dumps__(v)
        back = bound.__stringly_loads__(txt)
    except Exception as ex:
        raise Violation('unit-dumps-raised', f'{ustr!r} {v!r}: {type(ex).__name__}: {ex}', where='unit-dumps:' + type(ex).__name__)
    if not math.isclose(back, v, rel_tol=1e-9) or 'e' in txt.lower().replace(ustr.lower(), ''):
        raise Violation('unit-roundtrip', f'dumps({v!r}) = {txt!r} -> loads = {back!r}', where='unit-roundtrip')
    rec.nontrivial = any(f['p'] and f['pow'] for f in case['facs']) or len(case['facs']) >= 2


# ---------------------------------------------------------------------------------------------
# nutils dispatch on dimensional geometries

@st.composite
def dispatch_cases(draw, tier):
    return dict(ge=draw(exps()), fe=draw(exps()), ndims=draw(st.sampled_from([1, 2, 2])), op=draw(st.sampled_from(['grad', 'div', 'laplace', 'jacobian', 'integral', 'curvature', 'normal', 'derivative', 'field', 'surfgrad', 'curl', 'jump', 'opposite', 'linearize', 'replace', 'factor',
                                         'scatter', 'kronecker', 'normalized', 'bind', 'evaluate', 'arguments_for', 'locate', 'locate-wrong-dimension', 'locate-tol-dimension', 'locate-maxdist-dimension', 'locate-maxdist-plain', 'shape-queries', 'surfgrad'])),
                scale=draw(st.sampled_from([1.0, 2.0, 0.5])))


def check_dispatch(case, rec):
    S = SI()
    from nutils import mesh, function
    ge = [F(x) for x in case['ge']]; fe = [F(x) for x in case['fe']]
    if not any(ge) or not any(fe):
        raise Discard('dimensionless')
    nd = case['ndims']
    topo, x = mesh.rectilinear([2] * nd)
    X = dim_of(ge).wrap(x * case['scale'])
    fplain = (x * x).sum() + x[0]
    f = dim_of(fe).wrap(fplain)
    smp = topo.sample('gauss', 2)
    op = case['op']
    xs = x * case['scale']
    try:
        if op == 'grad':
            res = function.grad(f, X); e = [a - b for a, b in zip(fe, ge)]; plain = function.grad(fplain, xs)
        elif op == 'div':
            fv = dim_of(fe).wrap(x * fplain); res = function.div(fv, X); e = [a - b for a, b in zip(fe, ge)]; plain = function.div(x * fplain, xs)
        elif op == 'laplace':
            res = function.laplace(f, X); e = [a - 2 * b for a, b in zip(fe, ge)]; plain = function.laplace(fplain, xs)
        elif op == 'jacobian':
            res = function.J(X) if False else function.jacobian(X, nd); e = [b * nd for b in ge]; plain = function.jacobian(xs, nd)
        elif op == 'integral':
            res = smp.integral(f * function.J(X, nd)); e = [a + nd * b for a, b in zip(fe, ge)]; plain = smp.integral(fplain * function.J(xs, nd))
        elif op == 'normal':
            bs = topo.boundary.sample('gauss', 1)
            res = function.normal(X); plain = function.normal(xs); e = [F(0)] * 7; smp = bs
        elif op == 'curvature':
            bs = topo.boundary.sample('gauss', 1)
            if nd < 2: raise Discard('curvature-1d')
            res = function.curvature(X); plain = function.curvature(xs); e = [-b for b in ge]; smp = bs
        elif op == 'derivative':
            u = function.Argument('u', ())
            res = function.derivative(f * u * u, 'u'); plain = function.derivative(fplain * u * u, 'u'); e = fe
        elif op == 'field':
            # field(name, basis, ..., quantity factors): the dimension is the product of the dimensions of its arguments
            basis = topo.basis('std', degree=1)
            res = function.field('v', dim_of(fe).wrap(basis * 2.)); plain = function.field('v', basis * 2.); e = fe
            args_ = dict(v=numpy.arange(len(basis)) * .25 + 1)
        elif op == 'surfgrad':
            if nd < 2: raise Discard('surfgrad-1d')
            smp = topo.boundary.sample('gauss', 1)
            res = function.surfgrad(f, X); e = [a - b for a, b in zip(fe, ge)]; plain = function.surfgrad(fplain, xs)
        elif op == 'curl':
            topo, x = mesh.rectilinear([1, 2, 1]); X = dim_of(ge).wrap(x * case['scale']); xs = x * case['scale']; smp = topo.sample('gauss', 2)
            vplain = numpy.stack([x[1] * x[2], x[0] ** 2, x[0] * x[1]])
            res = function.curl(dim_of(fe).wrap(vplain), X); e = [a - b for a, b in zip(fe, ge)]; plain = function.curl(vplain, xs)
        elif op in ('jump', 'opposite'):
            smp = topo.interfaces.sample('gauss', 1)
            disc = topo.basis('discont', degree=0) @ (numpy.arange(len(topo)) + 1.)
            g = getattr(function, op)
            res = g(dim_of(fe).wrap(fplain * disc)); plain = g(fplain * disc); e = fe
        elif op == 'linearize':
            u = function.Argument('u', ())
            res = function.linearize(f * u * u, 'u:du'); plain = function.linearize(fplain * u * u, 'u:du'); e = fe
        elif op == 'replace':
            u = function.Argument('u', ())
            res = function.replace_arguments(f * u * u, dict(u=function.Argument('w', ()) * 2.)); plain = function.replace_arguments(fplain * u * u, dict(u=function.Argument('w', ()) * 2.)); e = fe
        elif op == 'factor':
            u = function.Argument('u', ())
            res = function.factor(smp.integral(f * u * u * function.J(X, nd))); plain = function.factor(smp.integral(fplain * u * u * function.J(xs, nd))); e = [a + nd * b for a, b in zip(fe, ge)]
        elif op == 'scatter':
            res = function.scatter(dim_of(fe).wrap(numpy.stack([fplain, 2 * fplain])), 4, numpy.array([3, 1])); plain = function.scatter(numpy.stack([fplain, 2 * fplain]), 4, numpy.array([3, 1])); e = fe
        elif op == 'kronecker':
            res = function.kronecker(f, 0, 3, 1); plain = function.kronecker(fplain, 0, 3, 1); e = fe
        elif op == 'normalized':
            res = function.normalized(dim_of(fe).wrap(x + 1.)); plain = function.normalized(x + 1.); e = [F(0)] * 7
        elif op == 'bind':
            res = smp.bind(f); plain = smp.bind(fplain); e = fe
        elif op == 'evaluate':
            got = function.evaluate(f, X, smp.integral(f * function.J(X, nd))) if False else None
            r1, r2 = function.evaluate(smp.integral(f * function.J(X, nd)), smp.integral(function.J(X, nd)))
            p1, p2 = function.evaluate(smp.integral(fplain * function.J(xs, nd)), smp.integral(function.J(xs, nd)))
            e1 = [a + nd * b for a, b in zip(fe, ge)]; e2 = [nd * b for b in ge]
            for r, pl, ee in ((r1, p1, e1), (r2, p2, e2)):
                if any(ee):
                    if type(r) is not dim_of(ee): raise Violation('dispatch-dimension', f'evaluate: got {type(r).__name__}, expected {dim_of(ee).__name__}', where='evaluate')
                    r = r.unwrap()
                elif isinstance(r, S.Quantity): raise Violation('dispatch-dimension', f'evaluate: got {type(r).__name__}, expected plain', where='evaluate')
                if not numpy.allclose(r, pl, rtol=1e-12): raise Violation('dispatch-value', f'evaluate: {r} != {pl}', where='evaluate')
            rec.label('op:evaluate'); rec.nontrivial = True
            return
        elif op == 'arguments_for':
            u = function.Argument('u', (2,))
            a = function.arguments_for(f * u.sum(), X)
            if set(a) != {'u'} or isinstance(a['u'], S.Quantity): raise Violation('dispatch-value', f'arguments_for: {a}', where='arguments_for')
            rec.label('op:arguments_for'); rec.nontrivial = True
            return
        elif op in ('locate', 'locate-wrong-dimension', 'locate-tol-dimension', 'locate-maxdist-dimension', 'locate-maxdist-plain'):
            pts = numpy.full((2, nd), .5) + numpy.arange(2)[:, None] * .25
            if op == 'locate':
                s1 = topo.locate(X, dim_of(ge).wrap(pts * case['scale']), tol=dim_of(ge).wrap(1e-10), maxdist=dim_of(ge).wrap(10.))
                s2 = topo.locate(xs, pts * case['scale'], tol=1e-10)
                a, b = s1.eval(x), s2.eval(x)
                if not numpy.allclose(a, b, atol=1e-12) or not numpy.allclose(a, pts, atol=1e-9): raise Violation('dispatch-value', f'locate: {a} vs {b} vs {pts}', where='locate')
                rec.label('op:locate'); rec.nontrivial = True
                return
            other = [F(1) - g_ for g_ in ge]      # another dimension
            if not any(other) or other == ge: raise Discard('no-other-dimension')
            try:
                if op == 'locate-wrong-dimension': topo.locate(X, dim_of(other).wrap(pts), tol=dim_of(ge).wrap(1e-10))
                elif op == 'locate-maxdist-dimension': topo.locate(X, dim_of(ge).wrap(pts * case['scale']), tol=dim_of(ge).wrap(1e-10), maxdist=dim_of(other).wrap(10.))
                elif op == 'locate-maxdist-plain': topo.locate(X, dim_of(ge).wrap(pts * case['scale']), tol=dim_of(ge).wrap(1e-10), maxdist=10.)
                else: topo.locate(X, dim_of(ge).wrap(pts * case['scale']), tol=dim_of(other).wrap(1e-10))
            except S.DimensionError:
                rec.label('op:' + op); rec.nontrivial = True
                return
            raise Violation('mixed-dimension-accepted', f'{op}: geometry [{dim_of(ge).__name__}] with coordinates / tolerance of dimension [{dim_of(other).__name__}] was accepted', where=op)
        elif op == 'shape-queries':
            q = dim_of(fe).wrap(numpy.array([[1., numpy.nan, 3.]]))
            got = (numpy.shape(q), numpy.ndim(q), numpy.size(q), numpy.isnan(q).tolist(), numpy.isfinite(q).tolist())
            if got != ((1, 3), 2, 3, [[False, True, False]], [[True, False, True]]): raise Violation('dispatch-value', f'shape queries: {got}', where='shape-queries')
            rec.label('op:shape-queries'); rec.nontrivial = True
            return
        elif op == 'swap_spaces':
            res = function.swap_spaces(f, 'X', 'Y') if False else None
            raise Discard('swap-spaces-needs-two-spaces')
        else:
            raise Discard('unknown-op')
    except Discard:
        raise
    except Violation:
        raise
    except Exception as ex:
        raise Violation('dispatch-raised', f'{op}: {type(ex).__name__}: {ex}', where=op + ':' + type(ex).__name__)
    if any(e):
        if type(res) is not dim_of(e):
            raise Violation('dispatch-dimension', f'{op}: got {type(res).__name__}, expected {dim_of(e).__name__}', where=op)
        inner = res.unwrap()
    else:
        if isinstance(res, S.Quantity):
            raise Violation('dispatch-dimension', f'{op}: got {type(res).__name__}, expected plain', where=op)
        inner = res
    args = dict(u=numpy.array(1.5), du=numpy.array(.5), w=numpy.array(.75)) if op in ('derivative', 'linearize', 'replace', 'factor') else {}
    if op == 'field': args = args_
    if op in ('integral', 'factor'):
        a, b = function.eval([inner, plain], arguments=args)
    else:
        a, b = smp.eval([inner, plain], arguments=args)
    if not numpy.allclose(a, b, rtol=1e-12):
        raise Violation('dispatch-value', f'{op}: {a} != {b}', where=op)
    rec.label('op:' + op)
    rec.nontrivial = True


SUBS = [Sub('algebra', algebra_cases, check_algebra, {'quick': 2500, 'thorough': 30000}, weight=3),
        Sub('parse', parse_cases, check_parse, {'quick': 2500, 'thorough': 30000}, weight=2),
        Sub('unit', unit_cases, check_unit, {'quick': 800, 'thorough': 8000}, weight=1),
        Sub('dispatch', dispatch_cases, check_dispatch, {'quick': 150, 'thorough': 2000}, weight=1)]

TRIGGERS = {}


def extra_coverage(merged):
    try:
        S = SI()
        table = S.Quantity._Quantity__DISPATCH_TABLE
        return dict(dispatch_table_keys=len(table))
    except Exception:
        return {}


MANIFEST = dict(
    category='exploration',
    technique='model-based property testing (Hypothesis): generated programs over quantities vs an exponent-vector model and plain-number arithmetic; grammar-generated unit strings vs an independent SI table; round trips',
    text='Generated operator programs over dimensional quantities are checked against an exponent-vector model (resulting type) and the same computation on plain numbers (value); mixing dimensions in '
         'add-like, comparison, stack-like, setitem and interp operations must raise; unit strings generated from the documented grammar are parsed and compared with an independent table of SI units '
         'and prefixes, formatted back, pickled; nutils.unit systems and the nutils dispatch (grad/div/laplace/curl/surfgrad/jacobian/normal/curvature/integral/bind/evaluate/field/derivative/linearize/replace_arguments/factor/scatter/kronecker/jump/opposite/normalized/arguments_for/locate incl. rejection of mixed dimensions) are exercised the same way. Held on everything explored.',
    note='Trusted: the SI table in props/c20.py, plain numpy arithmetic, Hypothesis.',
)
