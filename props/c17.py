"""C17 — Structural identity and hashing are injective and stable (DESIGN.md §4 C17)."""
import gc, json, os, pickle, subprocess, sys, numpy
from hypothesis import strategies as st
from vlib.core import Sub, Violation, Discard, jdump, ROOT

PROPERTY = 'C17'
LEVEL = 'exploration'
BUDGET = {'quick': 45, 'thorough': 450}
SHARDS = {'quick': 8, 'thorough': 16}
RULE = ('cases: recipes (plain-data construction programs) for values: None/Ellipsis/bool/int/float(+-0, nan, inf)/complex/str/bytes/tuple/list/set/frozenset/dict, '
        'frozendict, frozenmultiset, numpy scalars of several widths, ndarray (dtypes, shapes, C/F order, views, byte-swapped), arraydata, hashable_function, builtin types, '
        'Immutable/Singleton/DataClass subclasses (positional/keyword/defaulted arguments, **kwargs in permuted order, falsy container dataclasses, version), evaluable nodes (via G_ev programs), meshes/topologies, transforms, references, '
        'points, samples, solver methods. (pairs) value vs one structural mutation of it (regrouped nesting, container kind, leaf type confusion, same bytes under another '
        'dtype/shape, str vs bytes, multiplicity, other class) or vs an alternative construction route of the same value (keyword vs positional, int32 vs int64 arraydata input, '
        'numpy vs python scalar, insertion order of sets/dicts/multisets, pickle round trip): nutils_hash equal <=> reference canonical forms equal. (process) batches of recipes '
        're-hashed in a subprocess with another PYTHONHASHSEED. (lrucache) types.lru_cache called with generated views (transposes, strided and reversed slices, rows, columns, blocks) of frozen and writable arrays, other hashable arguments and replaced buffers: the result is always that of the function. (interning) histories of create/drop/gc/recreate/unpickle on interned types: equal recipes => same live object, hash never changes. '
        'non-trivial: pair differs by exactly one structural mutation or is an alternative route, process boundary crossed, or interning history with a drop+gc+recreate; distinct = case hash')
ASSUMPTIONS = ['the reference canonical form canon() in this module decides which values "can behave differently"', 'type objects other than builtin scalar types are outside the documented domain of nutils_hash and are not generated',
               'python-equal arguments of different type (1/True/1.0) given to an interning constructor are recorded, not asserted (DESIGN.md C17 scope note)']

INTERNED_CLS = ('SingA', 'SingB', 'DataA', 'DataB', 'SingK', 'DataE', 'DataF')
LEAVES = ['none', 'ellipsis', 'bool', 'int', 'float', 'complex', 'str', 'bytes', 'npscalar', 'type']
INTS = [0, 1, -1, 2, 255, 256, -128, 2 ** 31, 2 ** 63, -2 ** 63 - 1, 10 ** 30]
FLOATS = ['0.0', '-0.0', '1.0', '-1.0', '0.5', 'nan', 'inf', '-inf', '5e-324', '1e308', '2.0', '1.5']
STRS = ['', 'a', 'b', 'ab', 'a\x00b', '1', 'True', 'é', 'None']


@st.composite
def leaf(draw):
    k = draw(st.sampled_from(LEAVES))
    if k == 'bool': return dict(k=k, v=draw(st.booleans()))
    if k == 'int': return dict(k=k, v=draw(st.sampled_from(INTS)))
    if k == 'float': return dict(k=k, v=draw(st.sampled_from(FLOATS)))
    if k == 'complex': return dict(k=k, re=draw(st.sampled_from(FLOATS)), im=draw(st.sampled_from(FLOATS)))
    if k == 'str': return dict(k=k, v=draw(st.sampled_from(STRS)))
    if k == 'bytes': return dict(k=k, v=draw(st.sampled_from(STRS)))
    if k == 'npscalar':
        dt = draw(st.sampled_from(['bool_', 'int8', 'int16', 'int32', 'int64', 'uint8', 'float32', 'float64', 'complex128']))
        return dict(k=k, dtype=dt, v=draw(st.sampled_from([0, 1, 2, 100])))
    if k == 'type': return dict(k=k, v=draw(st.sampled_from(['bool', 'int', 'float', 'complex', 'str', 'bytes'])))
    return dict(k=k)


@st.composite
def ndarray_recipe(draw, kind=None):
    dt = draw(st.sampled_from(['bool', 'int8', 'int32', 'int64', 'uint8', 'float32', 'float64', 'complex128', '>i4', '>f8']))
    shape = draw(st.sampled_from([[], [0], [1], [3], [2, 2], [1, 4], [4, 1], [2, 0], [2, 3]]))
    n = int(numpy.prod(shape)) if shape else 1
    vals = [draw(st.sampled_from([0, 1, 2, 3, 100])) for _ in range(n)]
    return dict(k=kind or 'ndarray', dtype=dt, shape=shape, v=vals, layout=draw(st.sampled_from(['C', 'F', 'view', 'C'])))


def recipes(depth):
    if depth <= 0:
        return st.one_of(leaf(), leaf(), ndarray_recipe('arraydata'))
    sub = st.deferred(lambda: recipes(depth - 1))
    items = st.lists(sub, max_size=3)
    hashable_items = st.lists(st.one_of(leaf(), leaf(), ndarray_recipe('arraydata')), max_size=3)
    return st.one_of(
        leaf(),
        items.map(lambda x: dict(k='tuple', items=x)),
        items.map(lambda x: dict(k='list', items=x)),
        hashable_items.map(lambda x: dict(k='frozenset', items=x)),
        hashable_items.map(lambda x: dict(k='set', items=x)),
        st.lists(st.tuples(leaf(), sub), max_size=3).map(lambda kv: dict(k='dict', items=[list(x) for x in kv])),
        st.lists(st.tuples(leaf(), sub), max_size=3).map(lambda kv: dict(k='frozendict', items=[list(x) for x in kv])),
        hashable_items.map(lambda x: dict(k='multiset', items=x)),
        ndarray_recipe(), ndarray_recipe('arraydata'),
        st.tuples(st.sampled_from(['ImmA', 'ImmB', 'ImmV', 'SingA', 'SingB', 'DataA', 'DataB', 'ImmK', 'SingK', 'DataE', 'DataF']), st.lists(sub, min_size=1, max_size=3), st.sampled_from(['pos', 'kw', 'mixed']))
          .map(lambda t: dict(k='obj', cls=t[0], args=t[1], style=t[2])),
        sub.map(lambda x: dict(k='hfunc', ident=x)),
        st.sampled_from([dict(k='solver', name='Direct'), dict(k='solver', name='Newton'), dict(k='solver', name='Minimize'), dict(k='solver', name='LinesearchNewton')]),
        st.tuples(st.sampled_from(['rect', 'line', 'tri', 'mixed']), st.integers(1, 3), st.sampled_from(['topo', 'transforms', 'references', 'sample', 'boundary', 'points']))
          .map(lambda t: dict(k='mesh', kind=t[0], n=t[1], what=t[2])),
    )


class Unhashable(Exception):
    pass


def build(r, route=0):
    """construct the value; `route` selects an alternative construction route that must not change value or hash"""
    from nutils import types
    from vlib import c17classes
    k = r['k']
    if k == 'none': return None
    if k == 'ellipsis': return Ellipsis
    if k == 'bool': return bool(r['v'])
    if k == 'int': return int(r['v'])
    if k == 'float': return float(r['v'])
    if k == 'complex': return complex(float(r['re']), float(r['im']))
    if k == 'str': return str(r['v'])
    if k == 'bytes': return r['v'].encode()
    if k == 'npscalar': return getattr(numpy, r['dtype'])(r['v'])
    if k == 'type': return dict(bool=bool, int=int, float=float, complex=complex, str=str, bytes=bytes)[r['v']]
    if k == 'tuple': return tuple(build(i, route) for i in r['items'])
    if k == 'list': return [build(i, route) for i in r['items']]
    if k in ('frozenset', 'set', 'multiset'):
        items = [build(i, route) for i in r['items']]
        if route: items = items[::-1]
        try:
            return frozenset(items) if k == 'frozenset' else set(items) if k == 'set' else types.frozenmultiset(items)
        except TypeError:
            raise Unhashable()
    if k in ('dict', 'frozendict'):
        pairs = [(build(a, route), build(b, route)) for a, b in r['items']]
        if route: pairs = pairs[::-1]
        try:
            d = {}
            for a, b in pairs:
                if a in d: raise Unhashable()   # python-equal keys collapse: recipe ambiguous
                d[a] = b
            return d if k == 'dict' else types.frozendict(d)
        except TypeError:
            raise Unhashable()
    if k in ('ndarray', 'arraydata'):
        dt = numpy.dtype(r['dtype'])
        a = numpy.array(r['v'], dtype=dt).reshape(r['shape'])
        if r['layout'] == 'F': a = numpy.asfortranarray(a)
        elif r['layout'] == 'view' and a.ndim:
            big = numpy.zeros(a.shape[:-1] + (2 * a.shape[-1],), dtype=dt); big[..., ::2] = a; a = big[..., ::2]
        if k == 'ndarray': return a
        if route and dt.kind in 'iu' and dt.itemsize > 1:
            a = a.astype('int16' if abs(a).max(initial=0) < 2 ** 15 else a.dtype)   # other integer width in, same arraydata out
        return types.arraydata(a)
    if k == 'obj':
        cls = c17classes.CLASSES[r['cls']]
        args = [build(a, route) for a in r['args']]
        style = r['style'] if not route else {'pos': 'kw', 'kw': 'mixed', 'mixed': 'pos'}[r['style']]
        names = ['a', 'b', 'c']
        try:
            if r['cls'] in ('DataE', 'DataF'):      # the first argument only selects the style; an empty items tuple makes the value falsy
                return cls(tuple(args[1:])) if style == 'pos' else cls(items=tuple(args[1:]))
            if r['cls'] in ('ImmK', 'SingK'):       # extra keywords in the order given / reversed / first one positional
                kw = list(zip(['p', 'q'], args[1:]))
                if style == 'kw': kw = kw[::-1]
                return cls(args[0], **dict(kw)) if style != 'mixed' else cls(a=args[0], **dict(kw))
            if style == 'pos': return cls(*args)
            if style == 'kw': return cls(**dict(zip(names, args)))
            return cls(args[0], **dict(zip(names[1:], args[1:])))
        except TypeError:
            raise Unhashable()
    if k == 'hfunc':
        ident = build(r['ident'], route)
        if callable(ident):
            raise Unhashable()   # a callable identifier is taken to be the function to decorate
        try:
            types.nutils_hash(ident)
        except TypeError:
            raise Unhashable()
        return types.hashable_function(ident)(lambda x: x)
    if k == 'solver':
        from nutils import solver
        return getattr(solver, r['name'])()
    if k == 'mesh':
        return build_mesh(r)
    raise NotImplementedError(k)


def build_mesh(r):
    from nutils import mesh
    kind, n = r['kind'], r['n']
    if kind == 'line': topo, geom = mesh.line(n + 1)
    elif kind == 'rect': topo, geom = mesh.rectilinear([n, n + 1])
    else: topo, geom = mesh.unitsquare(n, 'triangle' if kind == 'tri' else 'mixed')
    w = r['what']
    if w == 'topo': return topo
    if w == 'transforms': return topo.transforms
    if w == 'references': return topo.references
    if w == 'sample': return topo.sample('gauss', 2)
    if w == 'points': return topo.sample('gauss', 2).points
    if w == 'boundary': return topo.boundary.transforms
    raise NotImplementedError(w)


def canon(r):
    """reference canonical form: equal iff the two recipes denote values that cannot behave differently"""
    k = r['k']
    if k in ('none', 'ellipsis'): return (k,)
    if k == 'bool': return ('bool', bool(r['v']))
    if k == 'int': return ('int', int(r['v']))
    if k == 'float': return ('float', repr(float(r['v'])))
    if k == 'complex': return ('complex', repr(complex(float(r['re']), float(r['im']))))
    if k == 'str': return ('str', r['v'])
    if k == 'bytes': return ('bytes', r['v'].encode().hex())
    if k == 'npscalar':
        kind = numpy.dtype(r['dtype']).kind
        v = getattr(numpy, r['dtype'])(r['v'])
        if kind == 'b': return ('bool', bool(v))
        if kind in 'iu': return ('int', int(v))
        if kind == 'f': return ('float', repr(float(v)))
        return ('complex', repr(complex(v)))
    if k == 'type': return ('type', r['v'])
    if k in ('tuple', 'list'): return (k, tuple(canon(i) for i in r['items']))
    if k in ('set', 'frozenset'):
        # python sets collapse ==-equal items; separately built NaNs (also inside tuples) are not equal to each other and all stay
        cs = [jdump(canon(i)) for i in r['items']]
        return (k, tuple(sorted(set(c for c in cs if 'nan' not in c)) + sorted(c for c in cs if 'nan' in c)))
    if k == 'multiset': return (k, tuple(sorted(jdump(canon(i)) for i in r['items'])))
    if k in ('dict', 'frozendict'): return (k, tuple(sorted(jdump([canon(a), canon(b)]) for a, b in r['items'])))
    if k == 'ndarray':
        a = numpy.array(r['v'], dtype=numpy.dtype(r['dtype'])).reshape(r['shape'])
        return ('ndarray', a.dtype.str, tuple(a.shape), a.tobytes().hex())
    if k == 'arraydata':
        a = numpy.array(r['v'], dtype=numpy.dtype(r['dtype'])).reshape(r['shape'])
        native = dict(b=bool, u=int, i=int, f=float, c=complex)[a.dtype.kind]
        return ('arraydata', native.__name__, tuple(a.shape), a.astype(native).tobytes().hex())
    if k == 'obj':
        args = [canon(a) for a in r['args']]
        if r['cls'] in ('DataE', 'DataF'): return ('obj', r['cls'], ('items', tuple(args[1:])))     # first argument is not part of the value
        if r['cls'] in ('ImmK', 'SingK'): return ('obj', r['cls'], (args[0], tuple(zip(['p', 'q'], args[1:]))))
        defaults = [None, ('int', 2), ('str', 'x')]
        full = args + defaults[len(args):]
        return ('obj', r['cls'], tuple(full))
    if k == 'hfunc': return ('hfunc', canon(r['ident']))
    if k == 'solver': return ('solver', r['name'])
    if k == 'mesh': return ('mesh', r['kind'], r['n'], r['what'])
    raise NotImplementedError(k)


def py_equal_confusable(r):
    """does the recipe pass python-equal values of different type to containers/constructors that key on python equality?"""
    # conservative: any set/dict/multiset/interned object whose direct items contain two leaves that are ==-equal but canonically different
    bad = False
    def leaves_eq(items):
        vals = []
        for i in items:
            if i['k'] in ('bool', 'int', 'float', 'complex', 'npscalar'):
                try: vals.append((complex(build(i)), jdump(canon(i))))
                except Exception: pass
        return any(a[0] == b[0] and a[1] != b[1] for x, a in enumerate(vals) for b in vals[x + 1:])
    def walk(x):
        nonlocal bad
        k = x['k']
        if k in ('set', 'frozenset', 'multiset'):
            bad |= leaves_eq(x['items'])
        if k in ('dict', 'frozendict'):
            bad |= leaves_eq([a for a, b in x['items']])
        for key in ('items', 'args'):
            for i in x.get(key, []):
                if isinstance(i, list):
                    for j in i: walk(j)
                else: walk(i)
        if 'ident' in x: walk(x['ident'])
    walk(r)
    return bad


def numeric_leaves(r, out=None):
    out = [] if out is None else out
    if r['k'] in ('bool', 'int', 'float', 'complex', 'npscalar'):
        out.append(r)
    for key in ('items', 'args'):
        for i in r.get(key, []):
            if isinstance(i, list):
                for j in i: numeric_leaves(j, out)
            else: numeric_leaves(i, out)
    if 'ident' in r: numeric_leaves(r['ident'], out)
    return out


def contains_interned(r):
    if r['k'] == 'obj' and r['cls'] in INTERNED_CLS: return True
    if r['k'] in ('arraydata',): return False
    for key in ('items', 'args'):
        for i in r.get(key, []):
            if isinstance(i, list):
                if any(contains_interned(j) for j in i): return True
            elif contains_interned(i): return True
    return 'ident' in r and contains_interned(r['ident'])


# ---- structural mutations ---------------------------------------------------------------------

MUTATIONS = ['regroup', 'container-kind', 'leaf-type', 'str-bytes', 'dtype', 'shape', 'multiplicity', 'other-class', 'drop-item', 'swap-items', 'route', 'route', 'same']


def mutate(r, m, pick):
    r = json.loads(json.dumps(r))
    k = r['k']
    if m == 'regroup' and k in ('tuple', 'list') and len(r['items']) >= 2:
        a, b, *rest = r['items']
        r['items'] = [dict(k=k, items=[a, b])] + rest
        return r
    if m == 'container-kind':
        swap = {'tuple': 'list', 'list': 'tuple', 'set': 'frozenset', 'frozenset': 'set', 'dict': 'frozendict', 'frozendict': 'dict', 'ndarray': 'arraydata'}
        if k in swap:
            r['k'] = swap[k]; return r
    if m == 'leaf-type':
        conv = {'bool': lambda x: dict(k='int', v=int(x['v'])), 'int': lambda x: dict(k='float', v=repr(float(x['v']))) if abs(x['v']) < 2 ** 50 else None,
                'float': lambda x: dict(k='complex', re=x['v'], im='0.0'), 'none': lambda x: dict(k='str', v='None'), 'ellipsis': lambda x: dict(k='none')}
        if k in conv:
            return conv[k](r)
    if m == 'str-bytes' and k in ('str', 'bytes'):
        r['k'] = 'bytes' if k == 'str' else 'str'; return r
    if m == 'dtype' and k in ('ndarray', 'arraydata'):
        new = {'int64': 'float64', 'float64': 'int64', 'int32': 'float32', 'bool': 'uint8', 'uint8': 'bool', 'int8': 'uint8', 'float32': 'int32', 'complex128': 'float64', '>i4': 'int32', '>f8': 'float64'}[r['dtype']]
        r['dtype'] = new; return r
    if m == 'shape' and k in ('ndarray', 'arraydata') and len(r['shape']) >= 1:
        r['shape'] = r['shape'][::-1] if len(r['shape']) >= 2 and r['shape'] != r['shape'][::-1] else [1] + r['shape']
        return r
    if m == 'multiplicity' and k in ('multiset', 'tuple', 'list') and r['items']:
        r['items'] = r['items'] + [r['items'][pick % len(r['items'])]]; return r
    if m == 'other-class' and k == 'obj':
        r['cls'] = {'ImmA': 'ImmB', 'ImmB': 'ImmA', 'ImmV': 'ImmA', 'SingA': 'SingB', 'SingB': 'SingA', 'DataA': 'DataB', 'DataB': 'DataA', 'ImmK': 'SingK', 'SingK': 'ImmK', 'DataE': 'DataF', 'DataF': 'DataE'}[r['cls']]; return r
    if m == 'drop-item' and r.get('items'):
        del r['items'][pick % len(r['items'])]; return r
    if m == 'swap-items' and k in ('tuple', 'list') and len(r['items']) >= 2:
        r['items'][0], r['items'][1] = r['items'][1], r['items'][0]; return r
    if m == 'other-class' and k == 'solver':
        r['name'] = {'Direct': 'Newton', 'Newton': 'Direct', 'Minimize': 'LinesearchNewton', 'LinesearchNewton': 'Minimize'}[r['name']]; return r
    if m == 'shape' and k == 'mesh':
        r['n'] = r['n'] % 3 + 1; return r
    if m == 'container-kind' and k == 'mesh':
        r['what'] = {'topo': 'boundary', 'transforms': 'boundary', 'references': 'transforms', 'sample': 'topo', 'points': 'references', 'boundary': 'transforms'}[r['what']]; return r
    return None


@st.composite
def pair_cases(draw, tier):
    r = draw(recipes(2 if tier == 'quick' else 3))
    m = draw(st.sampled_from(MUTATIONS))
    pick = draw(st.integers(0, 5))
    path = [draw(st.integers(0, 3)) for _ in range(3)]   # where in the tree the mutation is applied
    other = draw(recipes(2)) if draw(st.integers(0, 5)) == 0 else None
    return dict(r=r, m=m, pick=pick, path=path, other=other)


def apply_at(r, path, f):
    """apply f to a sub-recipe selected by path (falls back to the root)"""
    if path:
        for key in ('items', 'args'):
            lst = r.get(key)
            if lst:
                i = path[0] % len(lst)
                if isinstance(lst[i], list):
                    sub = apply_at(lst[i][1], path[1:], f)
                    if sub is not None:
                        new = json.loads(json.dumps(r)); new[key][i][1] = sub; return new
                else:
                    sub = apply_at(lst[i], path[1:], f)
                    if sub is not None:
                        new = json.loads(json.dumps(r)); new[key][i] = sub; return new
    return f(r)


def check_pair(case, rec):
    from nutils import types
    r1 = case['r']
    m = case['m']
    route = 0
    if case['other'] is not None:
        r2 = case['other']; m = 'independent'
    elif m in ('route', 'same'):
        r2 = r1; route = 1 if m == 'route' else 0
    else:
        r2 = apply_at(r1, case['path'], lambda x: mutate(x, m, case['pick']))
        if r2 is None:
            # fall back to the first applicable mutation (rotating from the drawn one), at the drawn position or at the root
            structural = [x for x in MUTATIONS if x not in ('route', 'same')]
            k0 = structural.index(m)
            for path in (case['path'], []):
                for mm in structural[k0 + 1:] + structural[:k0]:
                    r2 = apply_at(r1, path, lambda x: mutate(x, mm, case['pick']))
                    if r2 is not None:
                        m = mm; break
                if r2 is not None: break
        if r2 is None:
            raise Discard('mutation-not-applicable')
    if py_equal_confusable(r1) or py_equal_confusable(r2):
        raise Discard('python-equal-keys')
    try:
        v1 = build(r1, 0)
        h1 = types.nutils_hash(v1)
    except Unhashable:
        raise Discard('unhashable-recipe')
    except TypeError as e:
        if 'unhashable type' in str(e): raise Discard('unhashable-recipe')
        raise Violation('hash-raised', f'{type(e).__name__}: {e} for {jdump(r1)[:300]}', where='hash-raised')
    # interning conflation (DESIGN.md scope note): the second value must not be built while python-equal-but-different
    # arguments of the first are alive inside an interned object; detect and count instead of asserting
    c1, c2 = canon(r1), canon(r2)
    if c1 != c2 and contains_interned(r1) and contains_interned(r2):
        n1 = [(complex(build(x)), jdump(canon(x))) for x in numeric_leaves(r1)]
        n2 = [(complex(build(x)), jdump(canon(x))) for x in numeric_leaves(r2)]
        if any(a[0] == b[0] and a[1] != b[1] for a in n1 for b in n2):
            rec.label('interning-python-equal-args (not asserted)')
            raise Discard('interning-python-equal-args')
    try:
        v2 = build(r2, route)
        h2 = types.nutils_hash(v2)
    except Unhashable:
        raise Discard('unhashable-recipe')
    except TypeError as e:
        if 'unhashable type' in str(e): raise Discard('unhashable-recipe')
        raise Violation('hash-raised', f'{type(e).__name__}: {e}', where='hash-raised')
    if not (isinstance(h1, bytes) and len(h1) == 20):
        raise Violation('hash-format', f'{h1!r}', where='format')
    if (h1 == h2) != (c1 == c2):
        if c1 == c2:
            raise Violation('unstable-hash', f'same value, different hash via {m}: {jdump(r1)[:400]} (route {route})', where='unstable:' + m + ':' + r1['k'])
        raise Violation('collision', f'different values share a hash ({m}): {jdump(r1)[:300]} vs {jdump(r2)[:300]}', where='collision:' + m + ':' + r1['k'])
    # hash is stable under re-hashing and pickling
    if types.nutils_hash(v1) != h1:
        raise Violation('unstable-hash', 'second nutils_hash call differs', where='rehash')
    if r1['k'] not in ('hfunc', 'set', 'ellipsis') and not _has(r1, 'hfunc') and not _nonnative(r1):
        try:
            v3 = pickle.loads(pickle.dumps(v1))
        except Exception as e:
            v3 = None
            rec.label('unpicklable')
        if v3 is not None:
            h3 = types.nutils_hash(v3)
            if h3 != h1:
                raise Violation('unstable-hash', f'hash changed by pickle round trip: {jdump(r1)[:400]}', where='pickle:' + r1['k'])
            if r1['k'] == 'obj' and r1['cls'] in ('SingA', 'SingB', 'DataA', 'DataB') and v3 is not v1 and _value_semantics(r1):
                raise Violation('interning', f'unpickled interned value is a different object: {jdump(r1)[:300]}', where='interning:pickle')
            if r1['k'] == 'mesh' and r1['what'] in ('transforms', 'references', 'boundary') and v3 is not v1 and type(v1).__mro__[1].__name__ == 'Singleton':
                raise Violation('interning', f'unpickled singleton is a different object: {jdump(r1)[:300]}', where='interning:pickle')
    # interned classes: equal recipe => identical object
    if c1 == c2 and r1['k'] == 'obj' and r1['cls'] in ('SingA', 'SingB', 'DataA', 'DataB') and v1 is not v2 and _value_semantics(r1):
        raise Violation('interning', f'structurally equal interned values are different objects ({m}): {jdump(r1)[:300]}', where='interning:' + m)
    rec.label('mutation:' + m, 'kind:' + r1['k'])
    rec.nontrivial = m not in ('independent', 'same')


def _value_semantics(r):
    # interning keys on python equality of the arguments: only arguments with value semantics (==/hash by content) qualify
    if r['k'] in ('solver', 'hfunc', 'ndarray', 'list', 'dict', 'set', 'mesh'): return False
    if r['k'] in ('float', 'complex', 'npscalar') and 'nan' in jdump(r): return False
    for key in ('items', 'args'):
        for i in r.get(key, []):
            if isinstance(i, list):
                if not all(_value_semantics(j) for j in i): return False
            elif not _value_semantics(i): return False
    return True


def _nonnative(r):
    # numpy's own pickle of a byte-swapped ndarray returns a native one; raw ndarrays are not nutils values
    if r['k'] == 'ndarray' and r['dtype'].startswith('>'): return True
    for key in ('items', 'args'):
        for i in r.get(key, []):
            if isinstance(i, list):
                if any(_nonnative(j) for j in i): return True
            elif _nonnative(i): return True
    return 'ident' in r and _nonnative(r['ident'])


def _has(r, kind):
    if r['k'] == kind: return True
    for key in ('items', 'args'):
        for i in r.get(key, []):
            if isinstance(i, list):
                if any(_has(j, kind) for j in i): return True
            elif _has(i, kind): return True
    return 'ident' in r and _has(r['ident'], kind)


# ---- evaluable programs: interning + hash stability across rebuild / pickle -------------------

def ev_cases(tier):
    from vlib import genexpr
    return st.tuples(genexpr.programs(maxnodes=12, maxdepth=5, maxloops=2), genexpr.programs(maxnodes=8, maxdepth=4, maxloops=1)).map(lambda t: dict(p1=t[0], p2=t[1]))


def check_ev(case, rec):
    from nutils import types, evaluable
    from vlib import genexpr
    (a,), _ = genexpr.build(case['p1'])
    (a2,), _ = genexpr.build(case['p1'])
    (b,), _ = genexpr.build(case['p2'])
    ha, hb = types.nutils_hash(a), types.nutils_hash(b)
    if a2 is not a:
        raise Violation('interning', 'the same program built twice gives two different evaluable objects', where='interning:evaluable')
    same = jdump(case['p1']) == jdump(case['p2'])
    if (a is b) != (ha == hb):
        raise Violation('collision' if ha == hb else 'unstable-hash', f'evaluables identical={a is b} hashes equal={ha == hb}', where='evaluable')
    a3 = pickle.loads(pickle.dumps(a))
    if a3 is not a or types.nutils_hash(a3) != ha:
        raise Violation('interning', 'pickle round trip of an evaluable gives a different object or hash', where='interning:evaluable-pickle')
    if genexpr.known_loop(case['p1']):
        # excluded by construction: simplification of such programs may not terminate (open C01 non-termination findings);
        # termination is not this property's subject, so the cached-simplification step is skipped and counted
        rec.label('simplify-skipped:upstream-C01')
    else:
        s = a.simplified
        if types.nutils_hash(a) != ha:
            raise Violation('unstable-hash', 'hash changed after simplification was cached', where='evaluable')
    rec.nontrivial = len(case['p1']['nodes']) >= 3
    rec.label('evaluable')


# ---- process boundary ---------------------------------------------------------------------------

@st.composite
def process_cases(draw, tier):
    from vlib import genexpr
    rs = draw(st.lists(recipes(2), min_size=8, max_size=20))
    progs = draw(st.lists(genexpr.programs(maxnodes=10, maxdepth=4, maxloops=1), min_size=1, max_size=4))
    return dict(recipes=rs, progs=progs, hashseed=draw(st.integers(1, 4000)))


CHILD = r'''
import sys, json, warnings
warnings.filterwarnings('ignore')
sys.path.insert(0, %r)
src = %r
if src: sys.path.insert(0, src)
from props import c17
from vlib import genexpr
from nutils import types
data = json.load(open(sys.argv[1]))
out = []
for r in data['recipes']:
    try: out.append(types.nutils_hash(c17.build(r, 1)).hex())
    except c17.Unhashable: out.append(None)
    except TypeError as e: out.append(None if 'unhashable type' in str(e) else 'ERR ' + str(e))
pout = []
for p in data['progs']:
    (a,), _ = genexpr.build(p)
    pout.append(types.nutils_hash(a).hex())
print(json.dumps(dict(recipes=out, progs=pout)))
'''


def check_process(case, rec):
    import tempfile
    from nutils import types
    from vlib import genexpr
    case = dict(case, recipes=[r for r in case['recipes'] if not py_equal_confusable(r)])
    here = []
    for r in case['recipes']:
        try: here.append(types.nutils_hash(build(r, 0)).hex())
        except Unhashable: here.append(None)
        except TypeError as e: here.append(None if 'unhashable type' in str(e) else 'ERR ' + str(e))
    phere = []
    for p in case['progs']:
        (a,), _ = genexpr.build(p)
        phere.append(types.nutils_hash(a).hex())
    with tempfile.TemporaryDirectory() as d:
        path = os.path.join(d, 'in.json')
        json.dump(dict(recipes=case['recipes'], progs=case['progs']), open(path, 'w'))
        env = dict(os.environ, PYTHONHASHSEED=str(case['hashseed']))
        p = subprocess.run([sys.executable, '-c', CHILD % (ROOT, os.environ.get('VERIF_NUTILS_SRC', '')), path], env=env, stdout=subprocess.PIPE, stderr=subprocess.PIPE, text=True, timeout=300)
    if p.returncode != 0:
        raise RuntimeError('child failed: ' + p.stderr[-2000:])
    there = json.loads(p.stdout.strip().splitlines()[-1])
    for r, a, b in zip(case['recipes'], here, there['recipes']):
        if a != b:
            raise Violation('unstable-hash', f'hash differs in another process (PYTHONHASHSEED={case["hashseed"]}, alternative route): {jdump(r)[:400]}: {a} vs {b}', where='process:' + r['k'])
    for pr, a, b in zip(case['progs'], phere, there['progs']):
        if a != b:
            raise Violation('unstable-hash', f'evaluable hash differs in another process: {jdump(pr)[:400]}', where='process:evaluable')
    rec.nontrivial = True
    rec.label('process-boundary')


# ---- interning histories --------------------------------------------------------------------------

@st.composite
def interning_cases(draw, tier):
    pool = draw(st.lists(st.tuples(st.sampled_from(['SingA', 'SingB', 'DataA', 'DataB', 'arraydata', 'SingK', 'DataE', 'DataF', 'evtuple']), st.integers(0, 3), st.sampled_from(['pos', 'kw', 'mixed'])), min_size=2, max_size=4))
    n = draw(st.integers(3, 12 if tier == 'quick' else 40))
    ops = [dict(op=draw(st.sampled_from(['create', 'create', 'drop', 'gc', 'unpickle', 'recreate', 'hash'])), i=draw(st.integers(0, 9)), slot=draw(st.integers(0, 5))) for _ in range(n)]
    return dict(pool=[list(p) for p in pool], ops=ops)


def check_interning(case, rec):
    from nutils import types
    from vlib import c17classes
    def make(spec):
        cls, v, style = spec
        if cls == 'arraydata':
            return types.arraydata(numpy.arange(v + 1, dtype='int32' if style == 'kw' else 'int64'))
        if cls == 'evtuple':     # the library's own container dataclass; v == 0 is the empty (falsy) tuple
            from nutils import evaluable
            items = tuple(evaluable.constant(k) for k in range(v))
            return evaluable.Tuple(items) if style == 'pos' else evaluable.Tuple(items=items)
        C = c17classes.CLASSES[cls]
        if cls in ('DataE', 'DataF'):
            items = tuple(range(v))
            return C(items) if style == 'pos' else C(items=items)
        if cls == 'SingK':
            return C(v, p=1, q='z') if style == 'pos' else C(v, q='z', p=1) if style == 'kw' else C(a=v, q='z', p=1)
        args = [v, (v, 'y'), 'z']
        if style == 'pos': return C(*args)
        if style == 'kw': return C(a=args[0], b=args[1], c=args[2])
        return C(args[0], c=args[2], b=args[1])
    slots = {}      # slot -> (spec index, object)
    hashes = {}     # spec index -> hash
    pickles = {}
    dropped = recreated = False
    for o in case['ops']:
        i = o['i'] % len(case['pool'])
        spec = case['pool'][i]
        op = o['op']
        if op in ('create', 'recreate'):
            obj = make(spec)
            h = types.nutils_hash(obj)
            if i in hashes and hashes[i] != h:
                raise Violation('unstable-hash', f'hash of {spec} changed over the history', where='interning:history')
            hashes[i] = h
            for s, (j, other) in slots.items():
                same = (case['pool'][j][0], case['pool'][j][1]) == (spec[0], spec[1])
                if same and other is not obj:
                    raise Violation('interning', f'two live structurally equal values {spec} are different objects', where='interning:live')
                if not same and other is obj:
                    raise Violation('interning', f'different values {spec} / {case["pool"][j]} are the same object', where='interning:conflated')
            slots[o['slot']] = (i, obj)
            pickles[i] = pickle.dumps(obj)
            if dropped and op == 'recreate': recreated = True
        elif op == 'drop':
            if slots.pop(o['slot'], None) is not None: dropped = True
        elif op == 'gc':
            obj = None
            gc.collect()
        elif op == 'unpickle' and i in pickles:
            obj = pickle.loads(pickles[i])
            if types.nutils_hash(obj) != hashes[i]:
                raise Violation('unstable-hash', f'unpickled {spec} has another hash', where='interning:unpickle')
            for s, (j, other) in slots.items():
                if (case['pool'][j][0], case['pool'][j][1]) == (spec[0], spec[1]) and other is not obj:
                    raise Violation('interning', f'unpickled {spec} is not the live instance', where='interning:unpickle')
            slots[o['slot']] = (i, obj)
        elif op == 'hash':
            for s, (j, other) in slots.items():
                if types.nutils_hash(other) != hashes[j]:
                    raise Violation('unstable-hash', 'hash of a live object changed', where='interning:history')
    rec.nontrivial = dropped and recreated
    rec.label('interning-history')



# ---- types.lru_cache: keyed on the buffer an array argument views, not on its value ------------------------------------------

@st.composite
def lru_cases(draw, tier):
    n = draw(st.integers(2, 5))
    vals = [draw(st.integers(-9, 9)) for _ in range(n * n)]
    views = []
    for _ in range(draw(st.integers(2, 5))):
        kind = draw(st.sampled_from(['full', 'T', 'head', 'step', 'row', 'col', 'flat-head', 'flat-step', 'rev', 'block']))
        views.append(dict(kind=kind, m=draw(st.integers(1, n)), k=draw(st.integers(1, 3)), i=draw(st.integers(0, n - 1))))
    calls = [dict(view=draw(st.integers(0, len(views) - 1)), extra=draw(st.sampled_from([1, 2, 2., True, 'a'])), base=draw(st.integers(0, 1))) for _ in range(draw(st.integers(2, 10)))]
    return dict(n=n, vals=vals, views=views, calls=calls, writeable=draw(st.integers(0, 5)) == 0, regen=draw(st.booleans()))


def _lru_view(a, v):
    n = a.shape[0]; k = v['kind']
    if k == 'full': return a
    if k == 'T': return a.T
    if k == 'head': return a[:v['m']]
    if k == 'step': return a[::v['k']][:v['m']]
    if k == 'row': return a[v['i']]
    if k == 'col': return a[:, v['i']]
    if k == 'flat-head': return a.reshape(-1)[:v['m'] * n]
    if k == 'flat-step': return a.reshape(-1)[::v['k'] + 1][:v['m']]
    if k == 'rev': return a[::-1]
    return a[:v['m'], :v['k']]


def check_lru(case, rec):
    import gc
    from nutils import types
    n = case['n']
    def func(arr, extra):
        return tuple((float(x) * 2, str(extra), type(extra).__name__) for x in numpy.asarray(arr).ravel()) + (arr.shape,)
    cached = types.lru_cache(func)
    def mkbase(shift):
        a = numpy.array(case['vals'], dtype=float).reshape(n, n) + shift
        if not case['writeable']: a.flags.writeable = False
        return a
    bases = [mkbase(0), mkbase(100)]
    distinct = set()
    for ci, c in enumerate(case['calls']):
        a = bases[c['base']]
        v = _lru_view(a, case['views'][c['view']])
        if case['writeable'] and ci % 2:
            a[0, 0] += 1      # a writable array is never cached: the next call must see the change
        want = func(v, c['extra'])
        try:
            got = cached(v, c['extra'])
        except Exception as e:
            raise Violation('lru-raised', f'call {ci} with view {case["views"][c["view"]]} of a {n}x{n} array: {type(e).__name__}: {str(e)[:200]}', where='lru:raised:' + type(e).__name__)
        if got != want:
            raise Violation('lru-stale', f'call {ci}: view {case["views"][c["view"]]} (shape {v.shape}, strides {v.strides}) of base {c["base"]} with extra {c["extra"]!r}: cached result {got[:4]}.. {got[-1]}, the function gives {want[:4]}.. {want[-1]}; earlier calls {case["calls"][:ci]}', where='lru:stale')
        distinct.add((c['base'], c['view']))
        if case['regen'] and ci == len(case['calls']) // 2:
            # drop one base and build another array (possibly at the same address): entries of the destroyed buffer must be gone
            del a, v
            bases[1] = None; gc.collect()
            bases[1] = mkbase(200)
    kinds = {case['views'][c['view']]['kind'] for c in case['calls']}
    rec.nontrivial = len(distinct) >= 2 and not case['writeable']
    rec.label(*('lru-view:' + k for k in kinds), 'lru:writeable' if case['writeable'] else 'lru:frozen', *(['lru:buffer-replaced'] if case['regen'] else []))


SUBS = [Sub('pairs', pair_cases, check_pair, {'quick': 3000, 'thorough': 40000}, weight=4),
        Sub('evaluable', ev_cases, check_ev, {'quick': 300, 'thorough': 4000}, weight=1),
        Sub('interning', interning_cases, check_interning, {'quick': 600, 'thorough': 8000}, weight=1),
        Sub('process', process_cases, check_process, {'quick': 3, 'thorough': 60}, weight=2, shrink=False, timeout=400),
        Sub('lrucache', lru_cases, check_lru, {'quick': 400, 'thorough': 6000}, weight=1)]

TRIGGERS = {}

MANIFEST = dict(
    category='exploration',
    technique='property-based testing (Hypothesis): generated value recipes, adversarial single-mutation pairs and alternative construction routes vs a reference canonical form; subprocess re-hash under another PYTHONHASHSEED; stateful interning histories',
    text='For generated recipes nutils_hash(a)==nutils_hash(b) must hold exactly when the reference canonical forms are equal (single structural mutations give near-collision candidates, alternative construction '
         'routes give must-be-equal pairs); hashes must survive pickling, a second process with another hash seed, and allocation/gc histories of interned types, whose structurally equal live values must be one object. '
         'Held on everything explored.',
    note='Trusted: canon() in props/c17.py as the notion of "can behave differently"; Hypothesis. User-defined type objects as hash inputs and python-equal arguments of different type for interned constructors are outside the asserted domain.',
)
