"""C06 — Static array metadata is sound (DESIGN.md §4 C06)."""
import numpy, sys
from hypothesis import strategies as st
from vlib.core import Sub, Violation, Discard
from vlib import genexpr, evharness

PROPERTY = 'C06'
LEVEL = 'exploration'
BUDGET = {'quick': 50, 'thorough': 540}
SHARDS = {'quick': 8, 'thorough': 16}
RULE = ('cases: G_ev programs (all dtypes, loops, integer-heavy variant with mod/floordiv/min/max/sign/casts/take/inflate/argument indices) evaluated '
        'unsimplified, simplified and optimised with a wrapper around the code generator that appends, for every materialised Array node, a run-time '
        'check of announced ndim, dtype kind, constant shape entries and inferred integer range (fires at every loop iteration); plus argument-dependence: '
        'extra and unannounced arguments do not matter, omitting an announced one raises. non-trivial: the run checked at least one int node with finite '
        'non-degenerate non-constant bounds, or a node inside a loop; distinct = program hash')
ASSUMPTIONS = ['nodes that are only compiled in place into their parent (_compile_with_out) have no materialised value and are not checked',
               'the numpy interpreter decides whether the case is in the domain (finite); programs whose simplification does not terminate are left to C01']

INT_OPS = ['add', 'mul', 'sub', 'neg', 'abs', 'sign', 'min', 'max', 'mod', 'floordiv', 'cast', 'powi', 'sum', 'product', 'get', 'take', 'inflate', 'insertaxis',
           'transpose', 'ravel', 'unravel', 'choose', 'stack', 'concat', 'dot', 'loopsum', 'loopcat', 'takediag', 'diagonalize', 'greater', 'less', 'equal', 'not', 'guard', 'ravelindex', 'normdim', 'searchsorted']


def strategy(tier):
    big = tier == 'thorough'
    return st.one_of(
        genexpr.programs(maxnodes=30 if big else 12, maxdepth=7 if big else 5, maxloops=3 if big else 2, nouts=2),
        genexpr.programs(maxnodes=30 if big else 14, maxdepth=7 if big else 6, maxloops=3 if big else 2, nouts=2, dtypes=('bool', 'int'), ops=INT_OPS, out_dtypes=('int',)))


def check(prog, rec):
    from nutils import evaluable
    ref, want, args, tols = evharness.reference(prog)
    try:
        outs, built = genexpr.build(prog)
    except Exception as e:
        raise Violation('construct-raised', f'{type(e).__name__}: {e}', where='build:' + type(e).__name__)
    nn = len(prog['nodes'])
    sys.setrecursionlimit(3000)
    evharness.clear_cache(*outs)
    with evharness.RewriteTrace(bound=4000 + 1000 * nn, record=False):
        try:
            simps = [o.simplified for o in outs]
        except (evharness.StepBound, RecursionError):
            raise Discard('upstream-C01-nontermination')
        except Exception as e:
            if 'caught in a loop' in str(e):
                raise Discard('upstream-C01-nontermination')
            raise Discard('upstream-C01-simplify-raised')
    total_abstract = 0
    total_nodes = 0
    for mode in ((False, False), (True, False), (True, True)):
        with evharness.Instrument() as inst:
            try:
                got = evaluable.eval_once(tuple(outs), arguments=args, _simplify=mode[0], _optimize=mode[1])
            except Exception as e:
                if inst.failures:
                    k, name, d = inst.failures[0]
                    raise Violation(k, f'[simplify={mode[0]} optimize={mode[1]}] {d} (evaluation then raised {type(e).__name__}: {str(e)[:200]})', where=f'{k}:{name}')
                raise Discard('upstream-C02-eval-raised')
        if inst.failures:
            k, name, d = inst.failures[0]
            raise Violation(k, f'[simplify={mode[0]} optimize={mode[1]}] {d}', where=f'{k}:{name}')
        # root metadata against the independent reference
        for o, g, w in zip(outs, got, want):
            g = numpy.asarray(g)
            if g.ndim != o.ndim or g.ndim != w.ndim:
                raise Violation('root-ndim', f'announced ndim {o.ndim}, evaluated {g.shape}, reference {w.shape}', where='root')
        total_abstract += inst.abstract_int
        total_nodes += inst.nodes
        rec.label(*('node:' + k for k in inst.classes))
    # argument dependence (on the simplified expressions, whose announced argument set may be smaller)
    for o, s, w, tol in zip(outs, simps, want, tols):
        announced = {a.name for a in s.arguments if isinstance(a, evaluable.Argument)}
        if any(isinstance(a, evaluable._LoopIndex) for a in s.arguments):
            raise Violation('free-loop-index', f'closed expression announces a loop index among its arguments: {s.arguments}', where='arguments')
        allnames = set(args)
        if not announced <= allnames:
            raise Violation('announced-unknown-argument', f'{announced - allnames}', where='arguments')
        pert = {k: (v if k in announced else v + 1) for k, v in args.items()}
        pert['__unrelated__'] = numpy.arange(3.)
        try:
            g2 = evaluable.eval_once(s, arguments=pert, _simplify=False, _optimize=False)
        except Exception as e:
            raise Violation('unannounced-argument-matters', f'evaluation with perturbed unannounced arguments raised {type(e).__name__}: {str(e)[:200]}', where='arguments')
        bad = evharness.close(g2, w, tol)
        if bad:
            # only a C06 violation if the unperturbed simplified value is right
            g1 = evaluable.eval_once(s, arguments=args, _simplify=False, _optimize=False)
            if evharness.close(g1, w, tol) is None:
                raise Violation('unannounced-argument-matters', f'announced {sorted(announced)} of {sorted(allnames)}; {bad}', where='arguments')
            raise Discard('upstream-C01-value')
        for name in sorted(announced):
            sub = {k: v for k, v in args.items() if k != name}
            try:
                evaluable.eval_once(s, arguments=sub, _simplify=False, _optimize=False)
            except Exception:
                continue
            raise Violation('missing-argument-accepted', f'evaluated without announced argument {name!r}', where='arguments')
        if len(announced) < len(allnames):
            rec.label('argument-eliminated')
    hasloop = any(n['op'] in ('loopsum', 'loopcat') for n in prog['nodes'])
    rec.nontrivial = total_abstract > 0 or hasloop
    if total_abstract: rec.label('abstract-int-bounds')
    if hasloop: rec.label('has-loop')


# ---- user-level function arrays: announced shape, dtype and arguments vs evaluation ---------------------------------

def fn_cases(tier):
    from props import c13
    return c13.cases(tier)


def check_fn(case, rec):
    """f, replace_arguments(f, map in every spelling), derivative(f, u), linearize(f, u:du) and their integrals announce a shape, a dtype and a
    set of arguments (name -> shape, dtype); evaluation with exactly the announced arguments must work and deliver that shape and dtype, extra
    arguments must not matter, and leaving out an announced argument that the expression uses must raise"""
    import warnings
    from nutils import function
    from props import c13
    args = case['args']
    with warnings.catch_warnings(), numpy.errstate(all='ignore'):
        warnings.simplefilter('ignore')
        A = {n: c13.arr(a) for n, a in args.items()}
        F = {n: function.Argument(n, tuple(a['shape'])) for n, a in args.items()}
        f = c13.ev(case['f'], F)
        if not isinstance(f, function.Array):
            raise Discard('no-argument-used')
        repl = case['repl']
        extra = {r['name']: numpy.array(r['value'], dtype=float).reshape(args[n]['shape']) for n, r in repl if r['kind'] == 'newarg'}
        Aall = {**A, **extra}
        objs = [('f', f)]
        for name, spec in c13.render_map(case, F):
            try:
                objs.append((f'replace_arguments[{name}]', function.replace_arguments(f, spec)))
            except Exception as e:
                raise Discard('replace-raised')      # C13's subject
        wrt = case['wrt']
        if wrt in f.arguments:
            objs.append((f'derivative[{wrt}]', function.derivative(f, wrt)))
            objs.append((f'linearize[{wrt}]', function.linearize(f, f'{wrt}:d{wrt}')))
            Aall['d' + wrt] = numpy.array(case['direction'][:max(1, int(numpy.prod(args[wrt]['shape'])))], dtype=float).reshape(args[wrt]['shape'])
            # a replacement applied to the derivative: announced arguments of a chain
            objs.append((f'replace(derivative[{wrt}])', function.replace_arguments(objs[-2][1], {wrt: Aall[wrt] * 0 + 1.})))
        for name, g in objs:
            announced = dict(g.arguments)
            unknown = set(announced) - set(Aall)
            if unknown:
                raise Violation('announced-unknown-argument', f'{name}: announces {sorted(unknown)} which nothing introduced (f={c13._show(case["f"])}, map {repl})', where='fn-arguments:unknown')
            for n, (shape, dtype) in announced.items():
                if tuple(shape) != Aall[n].shape or dtype != float:
                    raise Violation('announced-argument-type', f'{name}: announces {n} as {shape} {dtype}, it is {Aall[n].shape} float', where='fn-arguments:type')
            try:
                v1 = numpy.asarray(function.eval(g, arguments={n: Aall[n] for n in announced}))
            except Exception as e:
                raise Violation('unannounced-argument-needed', f'{name}: evaluation with exactly the announced arguments {sorted(announced)} raised {type(e).__name__}: {str(e)[:200]} (f={c13._show(case["f"])}, map {repl})', where='fn-arguments:needed')
            if v1.shape != tuple(g.shape):
                raise Violation('announced-shape', f'{name}: announced shape {tuple(g.shape)}, evaluated {v1.shape}', where='fn-shape')
            if {'f': float, 'i': int, 'b': bool, 'c': complex}.get(v1.dtype.kind) != g.dtype:
                raise Violation('announced-dtype', f'{name}: announced dtype {g.dtype}, evaluated {v1.dtype}', where='fn-dtype')
            pert = {n: (v + 1.5 if n not in announced else v) for n, v in Aall.items()}
            v2 = numpy.asarray(function.eval(g, arguments=pert))
            if not numpy.array_equal(v1, v2, equal_nan=True):
                raise Violation('unannounced-argument-matters', f'{name}: changing arguments outside {sorted(announced)} changed the value', where='fn-arguments:extra')
            rec.label('fn:' + name.split('[')[0])
        rec.nontrivial = len(objs) > 2


# ---- shapes and loop lengths known only at run time -----------------------------------------------------------------------------------------

@st.composite
def runtime_cases(draw, tier):
    return dict(op=draw(st.sampled_from(['multiply', 'add', 'einsum', 'arctan2', 'less', 'subtract', 'loop_sum', 'loop_concatenate', 'nested-loop-length', 'inrange', 'inrange'])),
                n=draw(st.integers(0, 4)), m=draw(st.integers(0, 4)), simplify=draw(st.booleans()), optimize=draw(st.booleans()),
                lo=draw(st.integers(0, 4)), span=draw(st.integers(0, 3)), top=draw(st.integers(0, 5)), take=draw(st.booleans()))


def check_runtime(case, rec):
    """arrays whose lengths are given by arguments: the announced shape is the shape that is delivered - operands whose run-time lengths disagree
    must be refused, not broadcast - and a loop whose length is an argument announces that argument"""
    from nutils import evaluable as ev
    n, m = case['n'], case['m']
    N = ev.Maximum(ev.Argument('n', (), int), ev.constant(0)); M = ev.Maximum(ev.Argument('m', (), int), ev.constant(0))
    op = case['op']
    args = dict(n=numpy.array(n), m=numpy.array(m))
    kw = dict(_simplify=case['simplify'], _optimize=case['optimize'])
    if op == 'inrange':
        # an index known to lie in [0, top] checked against a length known to lie in [lo, lo+span]: the check may be dropped only if the index
        # is below the smallest possible length; otherwise an index at or beyond the run-time length must be refused
        lo, hi, top = case.get('lo', 0), case.get('lo', 0) + case.get('span', 0), case.get('top', 0)
        L = ev.Maximum(ev.Minimum(ev.Argument('n', (), int), ev.constant(hi)), ev.constant(lo))
        I = ev.Minimum(ev.Maximum(ev.Argument('m', (), int), ev.constant(0)), ev.constant(top))
        Lv, Iv = min(max(n, lo), hi), min(max(m, 0), top)
        checked = ev.InRange(I, L)
        take = bool(case.get('take')) and hi >= 1      # an axis that is empty by construction is rewritten to zeros, and taking from zeros does not look at the index: not asserted
        f = ev.Take(ev.Range(L) * ev.constant(3) + ev.constant(1), checked) if take else checked
        blo, bhi = f._intbounds
        try:
            got = ev.eval_once(f, arguments=args, **kw)
        except Exception as e:
            if Iv >= Lv:
                rec.label('runtime:inrange-refused'); rec.nontrivial = lo <= Iv; return
            raise Violation('eval-raised', f'InRange(index {Iv} in [0,{top}], length {Lv} in [{lo},{hi}]): {type(e).__name__}: {str(e)[:200]}', where='runtime:raised:inrange')
        if Iv >= Lv:
            raise Violation('mismatch-accepted', f'index {Iv} (known range [0,{top}]) was accepted for an axis of run-time length {Lv} (known range [{lo},{hi}]): evaluated to {numpy.asarray(got).tolist()} '
                                                  f'[simplify={case["simplify"]} optimize={case["optimize"]} take={take}]', where='runtime:accepted:inrange')
        want = 3 * Iv + 1 if take else Iv
        if int(got) != want or not (blo <= int(got) <= bhi):
            raise Violation('value', f'InRange/Take of index {Iv}, length {Lv}: {int(got)} (announced range [{blo},{bhi}]), expected {want}', where='runtime:value:inrange')
        rec.nontrivial = top >= lo
        rec.label('runtime:inrange-accepted'); return
    if op in ('loop_sum', 'loop_concatenate', 'nested-loop-length'):
        i = ev.loop_index('i', N)
        fi = ev.sin(ev.astype(i, float))
        if op == 'loop_sum': f = ev.loop_sum(fi, i); want = numpy.sin(numpy.arange(n, dtype=float)).sum()
        elif op == 'loop_concatenate': f = ev.loop_concatenate(ev.InsertAxis(fi, ev.constant(2)), i); want = numpy.repeat(numpy.sin(numpy.arange(n, dtype=float)), 2)
        else:
            j = ev.loop_index('j', i + ev.constant(1))      # the inner length is the outer index + 1
            f = ev.loop_sum(ev.loop_sum(ev.astype(j, float) + 1., j), i); want = numpy.float64(sum(sum(jj + 1. for jj in range(ii + 1)) for ii in range(n)))
        announced = {a.name for a in f.arguments if isinstance(a, ev.Argument)}
        if 'n' not in announced:
            raise Violation('unannounced-argument-needed', f'{op} over an index of length max(n,0): announced arguments {sorted(announced)} lack n', where='runtime:arguments:' + op)
        if f.isconstant:
            raise Violation('unannounced-argument-needed', f'{op} whose length is an argument claims to be constant', where='runtime:isconstant:' + op)
        try:
            got = numpy.asarray(ev.eval_once(f, arguments=dict(n=numpy.array(n)), **kw))
        except Exception as e:
            raise Violation('eval-raised', f'{op} n={n}: {type(e).__name__}: {str(e)[:200]}', where='runtime:raised:' + op)
        if got.shape != numpy.shape(want) or not numpy.allclose(got, want, rtol=1e-13, atol=1e-13):
            raise Violation('value', f'{op} n={n}: {got.tolist()} != {numpy.asarray(want).tolist()}', where='runtime:value:' + op)
        rec.nontrivial = n >= 2
        rec.label('runtime:' + op); return
    x = ev.Argument('x', (N,), float); y = ev.Argument('y', (M,), float)
    f = {'multiply': lambda: ev.multiply(x, y), 'add': lambda: ev.add(x, y), 'subtract': lambda: ev.subtract(x, y), 'arctan2': lambda: ev.ArcTan2(x, y), 'less': lambda: ev.Less(x, y),
         'einsum': lambda: ev.einsum('i,i->i', x, y)}[op]()
    args.update(x=numpy.arange(n, dtype=float) + 1, y=numpy.arange(m, dtype=float) + 2)
    try:
        got, length = ev.eval_once((f, f.shape[0]), arguments=args, **kw)
    except Exception as e:
        if n != m:
            rec.label('runtime:mismatch-refused:' + op); rec.nontrivial = True
            return
        raise Violation('eval-raised', f'{op} with equal run-time lengths {n}: {type(e).__name__}: {str(e)[:200]}', where='runtime:raised:' + op)
    got = numpy.asarray(got)
    if got.shape != (int(length),):
        raise Violation('announced-shape', f'{op} of operands of run-time lengths {n} and {m}: delivered shape {got.shape}, announced length {int(length)}', where='runtime:shape:' + op)
    if n != m:
        raise Violation('mismatch-accepted', f'{op} of operands of run-time lengths {n} and {m} was evaluated (shape {got.shape})', where='runtime:accepted:' + op)
    rec.nontrivial = n == m and n > 0
    rec.label('runtime:equal-lengths:' + op)


SUBS = [Sub('nodes', strategy, check, {'quick': 3000, 'thorough': 30000}, weight=4, timeout=25),
        Sub('function', fn_cases, check_fn, {'quick': 300, 'thorough': 5000}, weight=1, timeout=60),
        Sub('runtime', runtime_cases, check_runtime, {'quick': 200, 'thorough': 3000}, weight=1, timeout=60)]

def _upstream_c01(case, v):
    prog = case.get('prog', case)
    return genexpr.known_loop(prog)


TRIGGERS = {'upstream-C01-inflate-diagonalize': _upstream_c01}

MANIFEST = dict(
    category='exploration',
    technique='property-based testing (Hypothesis) with run-time assertions injected into the generated code: announced ndim/dtype/shape/integer range of every materialised node vs its evaluated value at every loop iteration; argument-dependence metamorphic checks',
    text='For generated programs every Array node that the code generator materialises (original, simplified and optimised DAGs) is checked inside the generated code against its announced '
         'ndim, dtype kind, constant shape and inferred integer range, at every loop iteration; evaluation must ignore unannounced arguments and must fail without an announced one. '
         'Held on everything explored; bounded sizes.',
    note='Trusted: Hypothesis; the wrapper around _BlockTreeBuilder.compile (mirrors nutils\' debug_flags.evalf branch). Nodes compiled in place into their parent are not observable and are skipped.',
)
