"""C08 — Differential-geometric operators obey their defining identities (DESIGN.md §4 C08)."""
import numpy, itertools, warnings
from hypothesis import strategies as st
from vlib.core import Sub, Violation, Discard
from vlib import gentopo

PROPERTY = 'C08'
LEVEL = 'exploration'
BUDGET = {'quick': 55, 'thorough': 550}
SHARDS = {'quick': 8, 'thorough': 16}
RULE = ('cases: mesh (line, rectilinear, periodic, 3-D box, triangles, mixed, multipatch, tetrahedra; optionally refined / hierarchically refined / trimmed) x geometry map of the unit box '
        '(identity, affine, quadratic with analytic Jacobian) x polynomial scalar and vector fields of degree <=3 with dyadic coefficients. oracle (analytic, computed by the harness from the '
        'coefficient arrays): grad(p(x),x)=p\'(x), div, laplace, curl (3-D), symgrad pointwise at Gauss points; on boundaries |n|=1, surfgrad = (I-nn^T)p\'(x), divergence theorem '
        'boundary flux == volume integral of the divergence; opposite(n)==-n on interfaces; integral of f(x)J(x) equals an independent Gauss-Legendre quadrature of f(g(xi))|det Dg(xi)| over '
        'the unit box and is invariant under refinement/hierarchical refinement of the topology. non-trivial: non-affine geometry or non-structured/refined/hierarchical topology, and field degree >=2; distinct = case hash')
ASSUMPTIONS = ['physical coordinates of the sample points are taken from evaluating the geometry (checked separately against the analytic map of local coordinates for structured meshes)', 'all generated meshes cover the unit box',
               'polynomial fields of degree <=3 composed with a geometry of degree <=2: Gauss degree 14 integrates the integrands exactly']

EXPS = {1: [(0,), (1,), (2,), (3,)], 2: [(0, 0), (1, 0), (0, 1), (2, 0), (1, 1), (0, 2), (2, 1), (3, 0), (1, 2)], 3: [(0, 0, 0), (1, 0, 0), (0, 1, 0), (0, 0, 1), (1, 1, 0), (0, 2, 0), (1, 0, 1), (2, 0, 1), (0, 1, 2), (1, 1, 1)]}
C = [-1., -.5, .5, 1., 2., .25, 0., 0.]


@st.composite
def cases(draw, tier):
    r = draw(gentopo.recipes(kinds=['line', 'rect', 'rect', 'tri', 'tri', 'mixed', 'multipatch', 'periodic', 'rect3', 'simplex3'], maxops=2, ops=('refine', 'refined_by', 'refined_by'), maxn=2))
    coeffs = [[draw(st.sampled_from(C)) for _ in range(10)] for _ in range(4)]   # scalar field + 3 vector components
    return dict(mesh=r, coeffs=coeffs, gdeg=draw(st.sampled_from([2, 3])))


class Poly:
    """polynomial in d variables given by coefficients on EXPS[d]; analytic derivatives"""
    def __init__(self, d, coeffs):
        self.d = d; self.terms = [(c, e) for c, e in zip(coeffs, EXPS[d]) if c]

    def __call__(self, X, deriv=()):
        out = numpy.zeros(len(X))
        for c, e in self.terms:
            e = list(e); f = c
            for k in deriv:
                f *= e[k]; e[k] -= 1
                if f == 0: break
            if f:
                out = out + f * numpy.prod(X ** numpy.array(e), axis=1)
        return out

    def nutils(self, x):
        from nutils import function
        out = function.Array.cast(0.)
        for c, e in self.terms:
            t = function.Array.cast(c)
            for k, p in enumerate(e):
                if p: t = t * x[k] ** p
            out = out + t
        return out

    @property
    def degree(self):
        return max([sum(e) for c, e in self.terms] + [0])


def check(case, rec):
    from nutils import function
    r = case['mesh']
    with warnings.catch_warnings():
        warnings.simplefilter('ignore')
        topo0, topo, xi, applied = gentopo.build(r)
        d = topo0.ndims
        geom, gmap, gjac = gentopo.geometry(xi, r['geom'], d, with_jac=True)
        p = Poly(d, case['coeffs'][0])
        v = [Poly(d, case['coeffs'][1 + k]) for k in range(d)]
        pf = p.nutils(geom)
        vf = numpy.stack([vk.nutils(geom) for vk in v])
        smp = topo.sample('gauss', case['gdeg'])
        what = f'mesh {r["kind"]} ops {applied} geom {r["geom"]["kind"]}'
        tol = 1e-10
        try:
            X, g, dv, lap, sg = smp.eval([geom, function.grad(pf, geom), function.div(vf, geom), function.laplace(pf, geom), function.symgrad(vf, geom)])
        except Exception as e:
            raise Violation('eval-raised', f'{what}: {type(e).__name__}: {str(e)[:300]}', where='eval:' + type(e).__name__)
        X = numpy.asarray(X)
        scale = 1 + max(abs(p(X)).max(), max(abs(vk(X)).max() for vk in v))
        want_g = numpy.stack([p(X, (k,)) for k in range(d)], axis=1)
        if abs(numpy.asarray(g) - want_g).max() > tol * scale * 10:
            raise Violation('grad', f'{what}: grad(p(x),x) differs from p\'(x) by {abs(numpy.asarray(g) - want_g).max():.3e}', where='grad:' + r['geom']['kind'] + ':' + r['kind'])
        want_div = sum(v[k](X, (k,)) for k in range(d))
        if abs(numpy.asarray(dv) - want_div).max() > tol * scale * 10:
            raise Violation('div', f'{what}: div differs by {abs(numpy.asarray(dv) - want_div).max():.3e}', where='div:' + r['kind'])
        want_lap = sum(p(X, (k, k)) for k in range(d))
        if abs(numpy.asarray(lap) - want_lap).max() > 1e-8 * scale * 10:
            raise Violation('laplace', f'{what}: laplace differs by {abs(numpy.asarray(lap) - want_lap).max():.3e}', where='laplace:' + r['kind'])
        G = numpy.stack([numpy.stack([v[i](X, (j,)) for j in range(d)], axis=1) for i in range(d)], axis=1)
        if abs(numpy.asarray(sg) - .5 * (G + G.transpose(0, 2, 1))).max() > tol * scale * 10:
            raise Violation('symgrad', f'{what}: symgrad differs', where='symgrad:' + r['kind'])
        if d == 3:
            cu = numpy.asarray(smp.eval(function.curl(vf, geom)))
            want = numpy.stack([G[:, 2, 1] - G[:, 1, 2], G[:, 0, 2] - G[:, 2, 0], G[:, 1, 0] - G[:, 0, 1]], axis=1)
            if abs(cu - want).max() > tol * scale * 10:
                raise Violation('curl', f'{what}: curl differs by {abs(cu - want).max():.3e}', where='curl:' + r['kind'])
            rec.label('curl')
        # integral invariance: independent quadrature over the unit box
        f = Poly(d, case['coeffs'][3])
        gl, gw = numpy.polynomial.legendre.leggauss(8)
        u = (gl + 1) / 2; wu = gw / 2
        P = numpy.array(list(itertools.product(u, repeat=d))); W = numpy.prod(numpy.array(list(itertools.product(wu, repeat=d))), axis=1)
        Y = gmap(P); detJ = abs(numpy.linalg.det(gjac(P)))
        want_int = float((f(Y) * detJ) @ W)
        got_int = float(topo.integrate(f.nutils(geom) * function.J(geom), degree=14))
        if abs(got_int - want_int) > 1e-10 * (1 + abs(want_int)):
            raise Violation('integral', f'{what}: integral of f J = {got_int!r}, independent quadrature over the unit box {want_int!r}', where='integral:' + r['kind'] + ':' + r['geom']['kind'])
        # boundary: unit normal, surface gradient, divergence theorem
        if r['kind'] != 'periodic':
            bnd = topo.boundary
            bs = bnd.sample('gauss', case['gdeg'])
            n = function.normal(geom)
            Xb, N, sgr = bs.eval([geom, n, function.surfgrad(pf, geom) if d > 1 else n])
            Xb = numpy.asarray(Xb); N = numpy.asarray(N)
            if abs(numpy.linalg.norm(N, axis=1) - 1).max() > 1e-12:
                raise Violation('normal-not-unit', f'{what}: |n| ranges {numpy.linalg.norm(N, axis=1).min()}..{numpy.linalg.norm(N, axis=1).max()}', where='normal:' + r['kind'])
            if d > 1:
                pg = numpy.stack([p(Xb, (k,)) for k in range(d)], axis=1)
                want_s = pg - N * (pg * N).sum(1)[:, None]
                if abs(numpy.asarray(sgr) - want_s).max() > tol * scale * 10:
                    raise Violation('surfgrad', f'{what}: surface gradient differs from tangential projection of p\' by {abs(numpy.asarray(sgr) - want_s).max():.3e}', where='surfgrad:' + r['kind'])
            flux = float(bnd.integrate((vf * n).sum(-1) * function.J(geom), degree=14))
            vol = float(topo.integrate(function.div(vf, geom) * function.J(geom), degree=14))
            if abs(flux - vol) > 1e-10 * (1 + abs(vol)):
                raise Violation('divergence-theorem', f'{what}: boundary flux {flux!r} != volume integral of the divergence {vol!r}', where='divthm:' + r['kind'] + ':' + r['geom']['kind'])
            rec.label('boundary')
        # interfaces: opposite normal
        try:
            ifaces = topo.interfaces
        except AttributeError:
            ifaces = None
        if ifaces is not None and len(ifaces) and r['kind'] != 'periodic':
            n = function.normal(geom)
            a, b = ifaces.sample('gauss', 2).eval([n, function.opposite(n)])
            if abs(numpy.asarray(a) + numpy.asarray(b)).max() > 1e-12:
                raise Violation('opposite-normal', f'{what}: opposite(n) != -n on interfaces', where='opposite:' + r['kind'])
            rec.label('interfaces')
    rec.nontrivial = (r['geom']['kind'] == 'quadratic' or r['kind'] not in ('line', 'rect', 'rect3') or bool(applied)) and p.degree >= 2
    rec.label('mesh:' + r['kind'], 'geom:' + r['geom']['kind'])
    for a in applied: rec.label('op:' + a[0])


SUBS = [Sub('identities', cases, check, {'quick': 150, 'thorough': 3000}, timeout=180)]

TRIGGERS = {}

MANIFEST = dict(
    category='exploration',
    technique='property-based testing (Hypothesis) with analytic oracles: generated meshes x polynomial geometry maps x polynomial fields; pointwise operator identities, divergence theorem, change-of-variables against an independent quadrature',
    text='For generated meshes (eight kinds, optionally refined/hierarchical), geometry maps with analytic Jacobian and polynomial fields, grad/div/laplace/curl/symgrad/surfgrad are compared pointwise with analytic derivatives, normals must be unit '
         'vectors and opposite on interfaces, the divergence theorem must hold to 1e-10 and the integral of f J must equal an independent Gauss-Legendre quadrature over the unit box. Held on everything explored.',
    note='Trusted: analytic derivatives of the generated polynomials, own Gauss-Legendre rule; Hypothesis. Not covered in this version: codimension-1 manifolds with surfgrad only through boundaries of volume meshes; product topologies with spaces= restricted operators.',
)
