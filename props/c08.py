"""C08 — Differential-geometric operators obey their defining identities (DESIGN.md §4 C08)."""
import numpy, itertools, warnings
from hypothesis import strategies as st
from vlib.core import Sub, Violation, Discard
from vlib import gentopo

PROPERTY = 'C08'
LEVEL = 'exploration'
BUDGET = {'quick': 55, 'thorough': 550}
SHARDS = {'quick': 8, 'thorough': 16}
RULE = ('cases: mesh (line, rectilinear, periodic, 3-D box, triangles, mixed, multipatch, tetrahedra; optionally refined / hierarchically refined / trimmed) x geometry map of the unit box '
        '(identity, affine, quadratic with analytic Jacobian) x polynomial scalar and vector fields of degree <=3 with dyadic coefficients. oracle (analytic, computed by the harness from the '
        'coefficient arrays): grad(p(x),x)=p\'(x), div, laplace, curl (3-D), symgrad pointwise at Gauss points; on boundaries |n|=1, surfgrad = (I-nn^T)p\'(x), divergence theorem '
        'boundary flux == volume integral of the divergence; opposite(n)==-n on interfaces; integral of f(x)J(x) equals an independent Gauss-Legendre quadrature of f(g(xi))|det Dg(xi)| over '
        'the unit box and is invariant under refinement/hierarchical refinement of the topology. (product) X x T with X (1-2-D) and T in different spaces, each with its own affine/quadratic geometry: grad/div/laplace with respect to x and d/dt with and without explicit spaces=, integral of f J(x) J(t) vs independent quadrature, unit normals and the divergence theorem on boundary(X) x T and X x boundary(T). non-trivial: non-affine geometry or non-structured/refined/hierarchical topology, and field degree >=2; every product case; distinct = case hash')
ASSUMPTIONS = ['physical coordinates of the sample points are taken from evaluating the geometry (checked separately against the analytic map of local coordinates for structured meshes)', 'all generated meshes cover the unit box',
               'polynomial fields of degree <=3 composed with a geometry of degree <=2: Gauss degree 14 integrates the integrands exactly']

EXPS = {1: [(0,), (1,), (2,), (3,)], 2: [(0, 0), (1, 0), (0, 1), (2, 0), (1, 1), (0, 2), (2, 1), (3, 0), (1, 2)], 3: [(0, 0, 0), (1, 0, 0), (0, 1, 0), (0, 0, 1), (1, 1, 0), (0, 2, 0), (1, 0, 1), (2, 0, 1), (0, 1, 2), (1, 1, 1)]}
C = [-1., -.5, .5, 1., 2., .25, 0., 0.]


@st.composite
def cases(draw, tier):
    r = draw(gentopo.recipes(kinds=['line', 'rect', 'rect', 'tri', 'tri', 'mixed', 'multipatch', 'periodic', 'rect3', 'simplex3'], maxops=2, ops=('refine', 'refined_by', 'refined_by', 'trim', 'trim'), maxn=2))
    coeffs = [[draw(st.sampled_from(C)) for _ in range(10)] for _ in range(4)]   # scalar field + 3 vector components
    return dict(mesh=r, coeffs=coeffs, gdeg=draw(st.sampled_from([2, 3])), gbasis=draw(st.sampled_from([None, None, None, 0, 1, 2])))


class Poly:
    """polynomial in d variables given by coefficients on EXPS[d]; analytic derivatives"""
    def __init__(self, d, coeffs):
        self.d = d; self.terms = [(c, e) for c, e in zip(coeffs, EXPS[d]) if c]

    def __call__(self, X, deriv=()):
        out = numpy.zeros(len(X))
        for c, e in self.terms:
            e = list(e); f = c
            for k in deriv:
                f *= e[k]; e[k] -= 1
                if f == 0: break
            if f:
                out = out + f * numpy.prod(X ** numpy.array(e), axis=1)
        return out

    def nutils(self, x):
        from nutils import function
        out = function.Array.cast(0.)
        for c, e in self.terms:
            t = function.Array.cast(c)
            for k, p in enumerate(e):
                if p: t = t * x[k] ** p
            out = out + t
        return out

    @property
    def degree(self):
        return max([sum(e) for c, e in self.terms] + [0])


def check(case, rec):
    from nutils import function
    r = case['mesh']
    with warnings.catch_warnings():
        warnings.simplefilter('ignore')
        topo0, topo, xi, applied = gentopo.build(r)
        d = topo0.ndims
        geom, gmap, gjac = gentopo.geometry(xi, r['geom'], d, with_jac=True)
        gb = case.get('gbasis')
        if gb is not None and r['kind'] != 'periodic':
            # the same geometry map represented exactly as an expansion in a degree-2 basis of the base mesh (0) or of its uniform refinement (1);
            # the topology on which everything is evaluated is a (further) refinement of that mesh
            if gb == 2:
                # a hierarchically refined mesh (elements of two levels: the linear parts of its transforms differ from element to element) carries the
                # geometry; everything is evaluated on the uniform second refinement of the base mesh
                if len(topo0) > 4 or r['kind'] in ('multipatch',): raise Discard('mesh-too-large-for-a-projected-geometry')
                B = topo0.refined_by([len(topo0) - 1])
                topo = topo0.refined.refined; applied = [['refine'], ['refine']]
            else:
                B = topo0 if gb == 0 else topo0.refined
            if len(B) > 64: raise Discard('mesh-too-large-for-a-projected-geometry')
            if gb == 1:
                topo, applied = gentopo.apply_ops(B, xi, r['ops'])
                applied = [['refine']] + applied
            try:
                gbasis = B.basis('h-std' if gb == 2 else 'std', degree=2)
                geom = numpy.stack([gbasis @ B.project(geom[i], onto=gbasis, geometry=xi, degree=6) for i in range(d)])
            except Exception as e:
                raise Discard('geometry-projection-not-available')
            rec.label('geometry-from-basis:%d' % gb)
        p = Poly(d, case['coeffs'][0])
        v = [Poly(d, case['coeffs'][1 + k]) for k in range(d)]
        pf = p.nutils(geom)
        vf = numpy.stack([vk.nutils(geom) for vk in v])
        smp = topo.sample('gauss', case['gdeg'])
        what = f'mesh {r["kind"]} ops {applied} geom {r["geom"]["kind"]}'
        tol = 1e-10
        try:
            X, g, dv, lap, sg = smp.eval([geom, function.grad(pf, geom), function.div(vf, geom), function.laplace(pf, geom), function.symgrad(vf, geom)])
        except Exception as e:
            raise Violation('eval-raised', f'{what}: {type(e).__name__}: {str(e)[:300]}', where='eval:' + type(e).__name__)
        X = numpy.asarray(X)
        scale = 1 + max(abs(p(X)).max(), max(abs(vk(X)).max() for vk in v))
        want_g = numpy.stack([p(X, (k,)) for k in range(d)], axis=1)
        if abs(numpy.asarray(g) - want_g).max() > tol * scale * 10:
            raise Violation('grad', f'{what}: grad(p(x),x) differs from p\'(x) by {abs(numpy.asarray(g) - want_g).max():.3e}', where='grad:' + r['geom']['kind'] + ':' + r['kind'])
        want_div = sum(v[k](X, (k,)) for k in range(d))
        if abs(numpy.asarray(dv) - want_div).max() > tol * scale * 10:
            raise Violation('div', f'{what}: div differs by {abs(numpy.asarray(dv) - want_div).max():.3e}', where='div:' + r['kind'])
        want_lap = sum(p(X, (k, k)) for k in range(d))
        if abs(numpy.asarray(lap) - want_lap).max() > 1e-8 * scale * 10:
            raise Violation('laplace', f'{what}: laplace differs by {abs(numpy.asarray(lap) - want_lap).max():.3e}', where='laplace:' + r['kind'])
        G = numpy.stack([numpy.stack([v[i](X, (j,)) for j in range(d)], axis=1) for i in range(d)], axis=1)
        if abs(numpy.asarray(sg) - .5 * (G + G.transpose(0, 2, 1))).max() > tol * scale * 10:
            raise Violation('symgrad', f'{what}: symgrad differs', where='symgrad:' + r['kind'])
        if d == 3:
            cu = numpy.asarray(smp.eval(function.curl(vf, geom)))
            want = numpy.stack([G[:, 2, 1] - G[:, 1, 2], G[:, 0, 2] - G[:, 2, 0], G[:, 1, 0] - G[:, 0, 1]], axis=1)
            if abs(cu - want).max() > tol * scale * 10:
                raise Violation('curl', f'{what}: curl differs by {abs(cu - want).max():.3e}', where='curl:' + r['kind'])
            rec.label('curl')
        # integral invariance: independent quadrature over the unit box
        f = Poly(d, case['coeffs'][3])
        gl, gw = numpy.polynomial.legendre.leggauss(8)
        u = (gl + 1) / 2; wu = gw / 2
        P = numpy.array(list(itertools.product(u, repeat=d))); W = numpy.prod(numpy.array(list(itertools.product(wu, repeat=d))), axis=1)
        Y = gmap(P); detJ = abs(numpy.linalg.det(gjac(P)))
        want_int = float((f(Y) * detJ) @ W)
        trimmed = any(a[0] == 'trim' for a in applied)      # a trimmed topology covers a polygonal part of the box: the pointwise identities, unit outward normals and the divergence theorem still hold on it
        # simplex Gauss schemes have a documented maximum degree (6 on triangles, 7 on tetrahedra): beyond it integration is approximate by design
        gdeg_ = {'identity': 1, 'affine': 1, 'quadratic': 2}[r['geom']['kind']]
        need = f.degree * gdeg_ + d * (gdeg_ - 1)
        beyond = (r['kind'] in ('tri', 'mixed') and need > 6) or (r['kind'] == 'simplex3' and need > 7)
        if beyond: rec.label('integral-beyond-simplex-scheme-maximum')
        got_int = float(topo.integrate(f.nutils(geom) * function.J(geom), degree=14)) if not trimmed and not beyond else want_int
        if trimmed: rec.label('trimmed')
        if abs(got_int - want_int) > (1e-10 if case.get('gbasis') is None else 1e-7) * (1 + abs(want_int)):      # a projected geometry carries the tolerance of the projection solve
            raise Violation('integral', f'{what}: integral of f J = {got_int!r}, independent quadrature over the unit box {want_int!r}', where='integral:' + r['kind'] + ':' + r['geom']['kind'])
        # boundary: unit normal, surface gradient, divergence theorem
        if r['kind'] != 'periodic':
            bnd = topo.boundary
            bs = bnd.sample('gauss', case['gdeg'])
            n = function.normal(geom)
            Xb, N, sgr = bs.eval([geom, n, function.surfgrad(pf, geom) if d > 1 else n])
            Xb = numpy.asarray(Xb); N = numpy.asarray(N)
            if abs(numpy.linalg.norm(N, axis=1) - 1).max() > 1e-12:
                raise Violation('normal-not-unit', f'{what}: |n| ranges {numpy.linalg.norm(N, axis=1).min()}..{numpy.linalg.norm(N, axis=1).max()}', where='normal:' + r['kind'])
            if d > 1:
                pg = numpy.stack([p(Xb, (k,)) for k in range(d)], axis=1)
                want_s = pg - N * (pg * N).sum(1)[:, None]
                if abs(numpy.asarray(sgr) - want_s).max() > tol * scale * 10:
                    raise Violation('surfgrad', f'{what}: surface gradient differs from tangential projection of p\' by {abs(numpy.asarray(sgr) - want_s).max():.3e}', where='surfgrad:' + r['kind'])
            # a field that lives on the boundary only (expanded in a basis of the boundary topology, a manifold of codimension 1): its gradient with
            # respect to the volume geometry is defined along the surface, where it must agree with the tangential part of p'(x)
            if d >= 2 and not applied and case.get('gbasis') is None and r['geom']['kind'] != 'quadratic' and r['kind'] in ('rect', 'tri', 'mixed', 'rect3', 'simplex3'):
                p2 = Poly(d, [c_ if sum(e_) <= 2 else 0. for c_, e_ in zip(case['coeffs'][0], EXPS[d])])
                mb = bnd
                if r['kind'] in ('rect', 'rect3'):
                    mb = topo.boundary[('left', 'top', 'right', 'bottom')[case['gdeg'] % 2 * 2 + int(case['coeffs'][1][0] > 0)]]      # one side: the union of the sides has no basis
                try:
                    bb = mb.basis('std', degree=2)
                except (AttributeError, NotImplementedError):
                    bb = None      # no basis on this kind of boundary topology
                if bb is not None:
                    try:
                        fb = bb @ mb.project(p2.nutils(geom), onto=bb, geometry=geom, degree=6)
                        ms = mb.sample('gauss', case['gdeg'])
                        Gb, Nm, Xm = (numpy.asarray(q) for q in ms.eval([function.grad(fb, geom), n, geom]))
                    except Exception as e:
                        raise Violation('eval-raised', f'{what}: gradient of a field on a boundary basis: {type(e).__name__}: {str(e)[:300]}', where='manifold-basis:' + type(e).__name__)
                    pg2 = numpy.stack([p2(Xm, (k,)) for k in range(d)], axis=1)
                    tang = lambda V: V - Nm * (V * Nm).sum(1)[:, None]
                if bb is not None and abs(tang(Gb) - tang(pg2)).max() > 1e-8 * scale * 10:
                    raise Violation('manifold-basis-gradient', f'{what}: tangential gradient of a field expanded in a boundary basis differs from the tangential part of p\'(x) by {abs(tang(Gb) - tang(pg2)).max():.3e}', where='manifold-basis:' + r['kind'])
                if bb is not None: rec.label('manifold-basis-gradient')
            flux = float(bnd.integrate((vf * n).sum(-1) * function.J(geom), degree=14))
            vol = float(topo.integrate(function.div(vf, geom) * function.J(geom), degree=14))
            if abs(flux - vol) > 1e-10 * (1 + abs(vol)):
                raise Violation('divergence-theorem', f'{what}: boundary flux {flux!r} != volume integral of the divergence {vol!r}', where='divthm:' + r['kind'] + ':' + r['geom']['kind'])
            rec.label('boundary')
        # interfaces: opposite normal
        try:
            ifaces = topo.interfaces
        except AttributeError:
            ifaces = None
        if ifaces is not None and len(ifaces) and r['kind'] != 'periodic':
            n = function.normal(geom)
            a, b = ifaces.sample('gauss', 2).eval([n, function.opposite(n)])
            if abs(numpy.asarray(a) + numpy.asarray(b)).max() > 1e-12:
                raise Violation('opposite-normal', f'{what}: opposite(n) != -n on interfaces', where='opposite:' + r['kind'])
            rec.label('interfaces')
    rec.nontrivial = (r['geom']['kind'] == 'quadratic' or r['kind'] not in ('line', 'rect', 'rect3') or bool(applied)) and p.degree >= 2
    rec.label('mesh:' + r['kind'], 'geom:' + r['geom']['kind'])
    for a in applied: rec.label('op:' + a[0])


# ---- product topologies: operators per space -----------------------------------------------------------------------------

@st.composite
def product_cases(draw, tier):
    dx = draw(st.sampled_from([1, 2, 2]))
    return dict(dx=dx, nx=[draw(st.integers(1, 2)) for _ in range(dx)], nt=draw(st.integers(1, 3)), simplex=False,
                ax=[draw(st.sampled_from([-.25, .25, .5, 0., .125])) for _ in range(6)], at=draw(st.sampled_from([0., .5, -.25])),
                coeffs=[[draw(st.sampled_from(C)) if k in keep else 0. for k in range(10)] for keep in [set(draw(st.lists(st.integers(0, 9), min_size=2, max_size=3))) for _ in range(4)]],
                gdeg=draw(st.sampled_from([2, 3])), explicit=draw(st.booleans()), refine=draw(st.integers(0, 3)) == 0)      # sparse polynomials: the operator expressions on a product are expensive to simplify


def check_product(case, rec):
    """f(x, t) on X x T with X and T in different spaces, each with its own (affine / quadratic) geometry: grad/div/laplace with respect to x act on the X
    space only, d/dt on T only, J(x) J(t) makes the integral that of f over the image, normals of boundary(X) x T and X x boundary(T) are the unit
    normals of the respective factor, and the divergence theorem holds per factor"""
    from nutils import function, mesh
    dx = case['dx']; d = dx + 1
    with warnings.catch_warnings():
        warnings.simplefilter('ignore')
        if case['simplex']:
            X, xi = mesh.unitsquare(max(case['nx'][0], 1), 'triangle', space='X') if 'space' in mesh.unitsquare.__code__.co_varnames else (None, None)
            if X is None: raise Discard('unitsquare-without-space-argument')
        else:
            X, xi = mesh.rectilinear([numpy.linspace(0, 1, n + 1) for n in case['nx']], space='X')
        T, ti = mesh.rectilinear([numpy.linspace(0, 1, case['nt'] + 1)], space='T')
        if case['refine']: X = X.refined
        a = case['ax']
        # geometry of X: affine with a small shear (+ quadratic term in 2-D); of T: t = s + at s(1-s)... kept monotone
        if dx == 1:
            x = numpy.stack([xi[0] * (1 + a[0]) + a[1] * xi[0] ** 2 * .5])
            xmap = lambda P: numpy.stack([P[:, 0] * (1 + a[0]) + a[1] * P[:, 0] ** 2 * .5], axis=1)
            xdet = lambda P: abs(1 + a[0] + a[1] * P[:, 0])
        else:
            x = numpy.stack([xi[0] * (1 + a[0]) + a[1] * xi[1] + a[4] * xi[1] ** 2 * .5, a[2] * xi[0] + xi[1] * (1 + a[3])])
            xmap = lambda P: numpy.stack([P[:, 0] * (1 + a[0]) + a[1] * P[:, 1] + a[4] * P[:, 1] ** 2 * .5, a[2] * P[:, 0] + P[:, 1] * (1 + a[3])], axis=1)
            xdet = lambda P: abs((1 + a[0]) * (1 + a[3]) - (a[1] + a[4] * P[:, 1]) * a[2])
        at = case['at']
        t = ti[0] * (1 + at) + 2.
        topo = X * T
        geom = numpy.stack([*x, t])          # coordinates (x, t) of the product
        p = Poly(d, case['coeffs'][0])
        v = [Poly(d, case['coeffs'][1 + k]) for k in range(dx)]
        pf = p.nutils(geom)
        vf = numpy.stack([vk.nutils(geom) for vk in v])
        sp = dict(spaces=['X']) if case['explicit'] else {}
        spt = dict(spaces=['T']) if case['explicit'] else {}
        what = f'X({"tri" if case["simplex"] else case["nx"]}) x T({case["nt"]}) ax={a} at={at} explicit-spaces={case["explicit"]}'
        smp = topo.sample('gauss', case['gdeg'])
        try:
            Y, gx, gt, dvx, lapx = smp.eval([geom, function.grad(pf, x, **sp), function.grad(pf, t[None], **spt), function.div(vf, x, **sp), function.laplace(pf, x, **sp)])
        except Exception as e:
            raise Violation('eval-raised', f'{what}: {type(e).__name__}: {str(e)[:300]}', where='product-eval:' + type(e).__name__)
        Y = numpy.asarray(Y)
        scale = 10 * (1 + max(abs(p(Y)).max(), max(abs(vk(Y)).max() for vk in v)))
        want_gx = numpy.stack([p(Y, (k,)) for k in range(dx)], axis=1)
        for name, got, want in (('grad-x', gx, want_gx), ('grad-t', gt, p(Y, (dx,))[:, None]), ('div-x', dvx, sum(v[k](Y, (k,)) for k in range(dx))), ('laplace-x', lapx, sum(p(Y, (k, k)) for k in range(dx)))):
            got = numpy.asarray(got)
            if got.shape != numpy.shape(want) or abs(got - want).max() > 1e-9 * scale:
                raise Violation('product-operator', f'{what}: {name} differs from the analytic derivative by {abs(got - want).max() if got.shape == numpy.shape(want) else got.shape}', where='product:' + name)
        # operators with respect to the coordinates of the whole product (all spaces at once), also for a geometry that couples the factors
        for coupled in (False, True):
            gfull = geom if not coupled else numpy.stack([geom[0] + .3 * (geom[-1] - 2.), *geom[1:-1], geom[-1] + .2 * geom[0] ** 2])
            pfull = p.nutils(gfull)
            vfull = numpy.stack([Poly(d, case['coeffs'][1 + k % 3]).nutils(gfull) for k in range(d)])
            try:
                Yf, gf, dvf, lapf = smp.eval([gfull, function.grad(pfull, gfull), function.div(vfull, gfull), function.laplace(pfull, gfull)])
            except Exception as e:
                raise Violation('eval-raised', f'{what} coupled={coupled}: operators over all spaces: {type(e).__name__}: {str(e)[:300]}', where='product-eval-full:' + type(e).__name__)
            Yf = numpy.asarray(Yf)
            vv = [Poly(d, case['coeffs'][1 + k % 3]) for k in range(d)]
            sc = 10 * (1 + max(abs(p(Yf)).max(), max(abs(vk(Yf)).max() for vk in vv)))
            for name, got, want in (('grad-full', gf, numpy.stack([p(Yf, (k,)) for k in range(d)], axis=1)), ('div-full', dvf, sum(vv[k](Yf, (k,)) for k in range(d))), ('laplace-full', lapf, sum(p(Yf, (k, k)) for k in range(d)))):
                got = numpy.asarray(got)
                if got.shape != numpy.shape(want) or abs(got - want).max() > 1e-8 * sc:
                    raise Violation('product-operator', f'{what} coupled-geometry={coupled}: {name} (all spaces) differs from the analytic derivative by {abs(got - want).max() if got.shape == numpy.shape(want) else got.shape}', where='product:' + name)
        # integral with both jacobians vs independent quadrature over the unit box
        f = Poly(d, case['coeffs'][3])
        gl, gw = numpy.polynomial.legendre.leggauss(8)
        u = (gl + 1) / 2; wu = gw / 2
        P = numpy.array(list(itertools.product(u, repeat=d))); W = numpy.prod(numpy.array(list(itertools.product(wu, repeat=d))), axis=1)
        Yq = numpy.concatenate([xmap(P[:, :dx]), (P[:, dx] * (1 + at) + 2.)[:, None]], axis=1)
        want_int = float((f(Yq) * xdet(P[:, :dx]) * abs(1 + at)) @ W)
        if not case['simplex'] or True:
            got_int = float(topo.integrate(f.nutils(geom) * function.J(x, **sp) * function.J(t[None], **spt), degree=12))
            if abs(got_int - want_int) > 1e-10 * (1 + abs(want_int)):
                raise Violation('integral', f'{what}: integral of f J(x) J(t) = {got_int!r}, independent quadrature {want_int!r}', where='product:integral')
        # curvature of a curved boundary of X in the X spaces only, for a geometry that the other factor scales: 1/(R (1 + s))
        if dx == 2 and not case['simplex']:
            rr, th = 1 + xi[0], xi[1]
            xa = numpy.stack([rr * numpy.cos(th), rr * numpy.sin(th)])
            gsc = (1 + ti[0]) * xa
            try:
                k0 = numpy.asarray(X.boundary['right'].sample('gauss', 2).eval(function.curvature(xa)))
                k1, s1 = (X.boundary['right'] * T).sample('gauss', 2).eval([function.curvature(gsc, spaces=['X']), ti[0]])
            except Exception as e:
                raise Violation('eval-raised', f'{what}: curvature of the arc r=2 (plain, and scaled by 1+s with spaces=[X]): {type(e).__name__}: {str(e)[:300]}', where='product-curvature:' + type(e).__name__)
            k1 = numpy.asarray(k1); s1 = numpy.asarray(s1)
            if abs(abs(k0) - .5).max() > 1e-9 or abs(abs(k1) - .5 / (1 + s1)).max() > 1e-9 or (numpy.sign(k1) != numpy.sign(k0[0])).any():
                raise Violation('product-operator', f'{what}: curvature of the arc r=2: plain {k0[:3].tolist()} (expected magnitude 0.5), scaled by (1+s) in the X spaces {k1[:3].tolist()} (expected 0.5/(1+s) = {(.5 / (1 + s1))[:3].tolist()})', where='product:curvature')
            rec.label('product:curvature-in-subspace')
        # boundary of X times T: normal of x, divergence theorem in x for every t
        if dx >= 1:
            bt = X.boundary * T
            nx_ = function.normal(x, **sp)
            N, = bt.sample('gauss', case['gdeg']).eval([nx_])
            N = numpy.asarray(N)
            if abs(numpy.linalg.norm(N, axis=1) - 1).max() > 1e-12:
                raise Violation('normal-not-unit', f'{what}: |n_x| on boundary(X) x T ranges {numpy.linalg.norm(N, axis=1).min()}..{numpy.linalg.norm(N, axis=1).max()}', where='product:normal')
            Jb = function.J(x, **sp) * function.J(t[None], **spt)
            flux = float(bt.integrate((vf * nx_).sum(0) * Jb, degree=12))
            vol = float(topo.integrate(function.div(vf, x, **sp) * function.J(x, **sp) * function.J(t[None], **spt), degree=12))
            if abs(flux - vol) > 1e-9 * (1 + abs(vol)):
                raise Violation('divergence-theorem', f'{what}: flux through boundary(X) x T {flux!r} != integral of div_x over X x T {vol!r}', where='product:divergence-x')
            # X times boundary of T: fundamental theorem in t
            xb = X * T.boundary
            nt_ = function.normal(t[None], **spt)
            Nt = numpy.asarray(xb.sample('gauss', case['gdeg']).eval(nt_))
            if abs(abs(Nt) - 1).max() > 1e-12:
                raise Violation('normal-not-unit', f'{what}: n_t on X x boundary(T) = {Nt.ravel().tolist()[:4]}', where='product:normal-t')
            fl = float(xb.integrate(pf * nt_[0] * function.J(x, **sp) * function.J(t[None], **spt), degree=12))
            vt = float(topo.integrate(function.grad(pf, t[None], **spt)[0] * function.J(x, **sp) * function.J(t[None], **spt), degree=12))
            if abs(fl - vt) > 1e-9 * (1 + abs(vt)):
                raise Violation('divergence-theorem', f'{what}: [p n_t] over X x boundary(T) {fl!r} != integral of dp/dt {vt!r}', where='product:divergence-t')
    rec.nontrivial = True
    rec.label('product:dx=%d' % dx, 'product:explicit=%s' % case['explicit'], *(['product:simplex'] if case['simplex'] else []), *(['product:refined'] if case['refine'] else []))


SUBS = [Sub('identities', cases, check, {'quick': 150, 'thorough': 3000}, weight=4, timeout=180),
        Sub('product', product_cases, check_product, {'quick': 100, 'thorough': 2000}, weight=1, timeout=120)]

TRIGGERS = {}

MANIFEST = dict(
    category='exploration',
    technique='property-based testing (Hypothesis) with analytic oracles: generated meshes x polynomial geometry maps x polynomial fields; pointwise operator identities, divergence theorem, change-of-variables against an independent quadrature',
    text='For generated meshes (eight kinds, optionally refined/hierarchical), geometry maps with analytic Jacobian and polynomial fields, grad/div/laplace/curl/symgrad/surfgrad are compared pointwise with analytic derivatives, normals must be unit '
         'vectors and opposite on interfaces, the divergence theorem must hold to 1e-10 and the integral of f J must equal an independent Gauss-Legendre quadrature over the unit box. Held on everything explored.',
    note='Trusted: analytic derivatives of the generated polynomials, own Gauss-Legendre rule; Hypothesis. Not covered in this version: codimension-1 manifolds with surfgrad only through boundaries of volume meshes; product topologies with spaces= restricted operators.',
)
