"""C10 — Topology operations conserve the domain (DESIGN.md §4 C10)."""
import os, numpy, warnings
from hypothesis import strategies as st
from vlib.core import Sub, Violation, Discard
from vlib import gentopo

PROPERTY = 'C10'
LEVEL = 'exploration'
BUDGET = {'quick': 55, 'thorough': 550}
SHARDS = {'quick': 8, 'thorough': 16}
RULE = ('cases: histories of 1..5 topology operations (refine, refined_by(subset), take, trim by an affine level set with maxrefine 0..2, boundary, boundary group, interfaces) generated on '
        'line/rectilinear/periodic/3-D/triangle/mixed/multipatch/tetrahedral meshes with identity, affine or quadratic geometry. After every step of the history: (measure) refinement and '
        'refined_by preserve the measure, every element\'s measure equals the sum of its children, take selects exactly the chosen elements\' measures, |trim|+|complement|==|original| '
        'regardless of where the approximate cut lies; (closed) for volume topologies: boundary integral of n J == 0 and of x.n J == dim*|domain|; the trimmed groups of a domain and its '
        'complement carry opposite normals; (interfaces) for a generic element-wise constant c: integral over interfaces of jump(c) n J equals the boundary integral of c n J, which holds '
        'iff every interior face appears exactly once between its two neighbours; jump(x)==0. non-trivial: >=2 operations including refined_by or trim; distinct = case hash')
ASSUMPTIONS = ['Gauss degree chosen high enough for the polynomial integrands (geometry degree <=2, dims <=3)', 'measures are compared to 1e-10 relative',
               'the identities are first confirmed on the un-operated base mesh of the same case (a failure there is a harness error, not a violation)']

TOL = 1e-10
DEG = [8]


@st.composite
def cases(draw, tier):
    r = draw(gentopo.recipes(minops=1, kinds=['line', 'rect', 'rect', 'tri', 'tri', 'mixed', 'multipatch', 'periodic', 'rect3', 'simplex3', 'rect', 'tri'], maxops=3 if tier == 'quick' else 5, ops=('refine', 'refined_by', 'refined_by', 'take', 'trim', 'trim', 'boundary', 'interfaces', 'boundary-group', 'slice'), maxn=2))
    if r['kind'] in ('periodic', 'rect', 'rect3', 'line') and draw(st.integers(0, 2)) == 0:
        # a window of a structured (in particular periodic) mesh first, then the drawn history: windows keep the index structure of the full axis
        r['ops'] = [['slice', 0 if r['kind'] == 'periodic' else draw(st.integers(0, 2)), draw(st.integers(0, 5)), draw(st.integers(1, 3))]] + r['ops'][:(2 if tier == 'quick' else 4)]
    return dict(mesh=r, csalt=draw(st.integers(1, 50)))


def measure(topo, geom, degree=None):
    degree = degree or (6 if DEG[0] == 8 else 3)
    from nutils import function
    return float(topo.integrate(function.J(geom), degree=degree))


def elem_measures(topo, geom, degree=None):
    degree = degree or (6 if DEG[0] == 8 else 3)
    from nutils import function
    return numpy.asarray(topo.integrate_elementwise(function.J(geom), degree=degree))


def closedness(topo, geom, vol, where, applied):
    from nutils import function
    bnd = topo.boundary
    n = function.normal(geom)
    J = function.J(geom)
    a, b = bnd.integrate([n * J, (geom * n).sum(-1) * J], degree=DEG[0])
    a = numpy.asarray(a); b = float(b)
    scale = 1 + abs(vol)
    if abs(a).max() > TOL * scale:
        raise Violation('boundary-not-closed', f'{where}: boundary integral of n is {a.tolist()} (ops {applied})', where='closed:' + _sig(applied))
    if abs(b - topo.ndims * vol) > 1e-9 * scale:
        raise Violation('boundary-not-closed', f'{where}: boundary flux of x is {b}, dim*volume {topo.ndims * vol} (ops {applied})', where='flux:' + _sig(applied))
    return bnd


def interfaces_once(topo, geom, bnd, salt, where, applied):
    from nutils import function
    ifaces = topo.interfaces
    c = numpy.sin(function.Array.cast(topo.f_index) * (1. + salt / 7.)) + 2.
    n = function.normal(geom); J = function.J(geom)
    degree = DEG[0]
    I = numpy.asarray(ifaces.integrate(function.jump(c) * n * J, degree=degree)) if len(ifaces) else numpy.zeros(topo.ndims)
    B = numpy.asarray(bnd.integrate(c * n * J, degree=degree))
    # sum over elements of c_e * closed surface integral of n == 0  =>  boundary term == interface term of jump
    if abs(B - I).max() > 1e-9 * (1 + abs(B).max()):
        raise Violation('interfaces-not-once', f'{where}: interface integral of jump(c) n = {I.tolist()}, boundary integral of c n = {B.tolist()} (ops {applied}, {len(ifaces)} interfaces)', where='interfaces:' + _sig(applied))
    if len(ifaces):
        j = numpy.asarray(ifaces.sample('gauss', 2).eval(function.jump(geom)))
        if abs(j).max() > 1e-12:
            raise Violation('interface-mismatch', f'{where}: jump(x) = {abs(j).max():.2e} on interfaces (ops {applied})', where='jump:' + _sig(applied))


def _sig(applied):
    return '>'.join(a[0] + (str(a[3]) if a[0] == 'trim' else '') for a in applied) or 'base'


def check(case, rec):
    from nutils import function, mesh
    r = case['mesh']
    with warnings.catch_warnings():
        warnings.simplefilter('ignore')
        topo0, x = gentopo.base_mesh(r)
        geom, _ = gentopo.geometry(x, r['geom'], topo0.ndims)
        DEG[0] = 8 if r['geom']['kind'] == 'quadratic' else 4
        periodic = r['kind'] == 'periodic'
        vol0 = measure(topo0, geom)
        # calibration on the base mesh: a failure here is a harness problem
        if not periodic:
            try:
                b0 = closedness(topo0, geom, vol0, 'base', [])
                interfaces_once(topo0, geom, b0, case['csalt'], 'base', [])
            except Violation as v:
                if r['kind'] in ('multipatch',):
                    raise
                raise
        topo = topo0
        applied = []
        vol = vol0
        for op in r['ops']:
            name = op[0]
            prev, prevvol = topo, vol
            involume = topo.ndims == topo0.ndims
            try:
                topo, done = gentopo.apply_ops(topo, x, [op], strict=True) if not applied else _apply(topo, x, op, applied)
            except Exception as e:
                raise Violation('op-raised', f'{_sig(applied)} > {name}: {type(e).__name__}: {str(e)[:200]}', where=f'op:{_sig(applied + [op])}:{type(e).__name__}', ops=[a for a in applied] + [op], exc=type(e).__name__)
            if not done:
                continue
            applied.append(op)
            where = _sig(applied)
            if len(topo) == 0:
                raise Discard('empty-topology')
            try:
                if name in ('refine', 'refined_by') and involume:
                    vol = measure(topo, geom)
                    if abs(vol - prevvol) > TOL * (1 + abs(prevvol)):
                        raise Violation('measure-changed', f'{where}: measure {vol} after refinement, {prevvol} before', where='measure:' + where)
                elif name == 'take' and involume:
                    em = elem_measures(prev, geom)
                    sel = sorted({i % len(prev) for i in op[1]})
                    vol = measure(topo, geom)
                    if abs(vol - em[sel].sum()) > TOL * (1 + abs(vol)):
                        raise Violation('measure-changed', f'{where}: measure {vol} of the selection, selected elements sum to {em[sel].sum()}', where='measure:' + where)
                elif name == 'trim' and involume:
                    c = op[1]
                    lev = sum(ci * x[i] for i, ci in enumerate(c[:topo.ndims])) - op[2] * (sum(abs(ci) for ci in c[:topo.ndims]) or 1)
                    comp = prev.trim(-lev, maxrefine=op[3])
                    vol = measure(topo, geom)
                    vc = measure(comp, geom) if len(comp) else 0.
                    if abs(vol + vc - prevvol) > TOL * (1 + abs(prevvol)):
                        raise Violation('trim-partition', f'{where}: |trim|={vol} + |complement|={vc} != |original|={prevvol}', where='partition:' + where)
                    if not periodic and len(comp) and not any(a[0] in ('take',) for a in applied):
                        n = function.normal(geom); J = function.J(geom)
                        try:
                            t1 = topo.boundary['trimmed']; t2 = comp.boundary['trimmed']
                        except (KeyError, AttributeError):
                            t1 = t2 = None
                        if t1 is not None and len(t1) and len(t2):
                            f = 1 + geom[0] + .5 * (geom * geom).sum(-1)
                            a1 = numpy.asarray(t1.integrate(f * n * J, degree=8)); a2 = numpy.asarray(t2.integrate(f * n * J, degree=8))
                            if abs(a1 + a2).max() > 1e-9 * (1 + abs(a1).max()):
                                raise Violation('cut-orientation', f'{where}: trimmed boundaries of domain and complement give {a1.tolist()} and {a2.tolist()} (should cancel)', where='cut:' + where)
                            rec.label('cut-orientation-checked')
                elif name == 'slice' and involume:
                    _, sel, d = gentopo.slice_structured(prev, op)
                    em = elem_measures(prev, geom)
                    vol = measure(topo, geom)
                    if abs(vol - em[sel].sum()) > TOL * (1 + abs(vol)):
                        raise Violation('measure-changed', f'{where}: measure {vol} of the window, its elements sum to {em[sel].sum()}', where='measure:' + where)
                    if periodic and d == 0:
                        periodic = False      # a window of the periodic direction is an ordinary (closed) domain
                        rec.label('window-of-periodic-direction')
                elif name in ('boundary', 'boundary-group', 'interfaces'):
                    pass
                # closedness and interfaces of the current volume topology
                if topo.ndims == topo0.ndims and not periodic and not any(a[0] == 'take' for a in applied):
                    try:
                        bnd = closedness(topo, geom, vol, where, applied)
                    except AttributeError as e:
                        raise Violation('op-raised', f'{where} > boundary: {type(e).__name__}: {str(e)[:200]}', where=f'op:{where}>boundary:AttributeError', ops=list(applied) + [['boundary']], exc='AttributeError')
                    try:
                        interfaces_once(topo, geom, bnd, case['csalt'], where, applied)
                    except AttributeError as e:
                        raise Violation('op-raised', f'{where} > interfaces: {type(e).__name__}: {str(e)[:200]}', where=f'op:{where}>interfaces:AttributeError', ops=list(applied) + [['interfaces']], exc='AttributeError')
                    rec.label('closed-checked')
                nref = len(topo.references)
                if nref != len(topo) or len(topo.transforms) != len(topo):
                    raise Violation('length', f'{where}: len(topo)={len(topo)} references={nref} transforms={len(topo.transforms)}', where='length')
            except Violation as v:
                v.info.setdefault('ops', list(applied))
                raise
        if not applied:
            raise Discard('no-operation-applied')
    rec.nontrivial = len(applied) >= 2 and any(a[0] in ('refined_by', 'trim') for a in applied)
    for a in applied: rec.label('op:' + a[0])
    rec.label('mesh:' + r['kind'], 'geom:' + r['geom']['kind'])


def _apply(topo, x, op, applied):
    """strict application of one more operation given the ones already applied (for gentopo's applicability rules)"""
    from nutils import function
    name = op[0]
    done = [a[0] for a in applied]
    if name == 'refine':
        if len(topo) > 64: return topo, []
        return topo.refined, [op]
    if name == 'refined_by':
        if len(topo) == 0 or len(topo) > 64: return topo, []
        return topo.refined_by(sorted({i % len(topo) for i in op[1]})), [op]
    if name == 'take':
        if len(topo) <= 1: return topo, []
        return topo.take(sorted({i % len(topo) for i in op[1]})), [op]
    if name == 'trim':
        if any(d in ('boundary', 'interfaces', 'boundary-group', 'trim') for d in done) or len(topo) > 40: return topo, []
        c = op[1]
        lev = sum(ci * x[i] for i, ci in enumerate(c[:topo.ndims])) - op[2] * (sum(abs(ci) for ci in c[:topo.ndims]) or 1)
        t2 = topo.trim(lev, maxrefine=op[3])
        return (t2, [op]) if len(t2) else (topo, [])
    if name == 'boundary':
        if topo.ndims < 2 or any(d in ('boundary', 'interfaces', 'boundary-group') for d in done): return topo, []
        b = topo.boundary; len(b.transforms)
        return b, [op]
    if name == 'interfaces':
        if topo.ndims < 1 or any(d in ('boundary', 'interfaces', 'boundary-group') for d in done): return topo, []
        t2 = topo.interfaces
        return (t2, [op]) if len(t2) else (topo, [])
    if name == 'boundary-group':
        if topo.ndims < 2 or any(d in ('boundary', 'interfaces', 'boundary-group') for d in done): return topo, []
        try:
            return topo.boundary[op[1]], [op]
        except KeyError:
            return topo, []
    if name == 'slice':
        r = gentopo.slice_structured(topo, op)
        return (r[0], [op]) if r is not None else (topo, [])
    return topo, []


# ---- windows of structured (periodic) meshes: slicing, refinement and boundary commute ------------------------------------

@st.composite
def window_cases(draw, tier):
    nd = draw(st.sampled_from([1, 2, 2, 2, 3]))
    shape = [draw(st.integers(1, 5 if nd < 3 else 3)) for _ in range(nd)]
    periodic = [d for d in range(nd) if draw(st.integers(0, 2)) == 0 and shape[d] >= 1]
    slices = []
    for d in range(nd):
        if draw(st.integers(0, 2)) or d in periodic:
            a = draw(st.integers(0, shape[d] - 1)); b = draw(st.integers(a + 1, shape[d]))
            slices.append([a, b])
        else:
            slices.append(None)
    return dict(shape=shape, periodic=periodic, slices=slices, nref=draw(st.integers(1, 2)), sel=[draw(st.integers(0, 60)) for _ in range(draw(st.integers(1, 3)))],
                sel2=[draw(st.integers(0, 60)) for _ in range(draw(st.integers(0, 3)))], geom=draw(st.sampled_from(['identity', 'affine'])))


def check_window(case, rec):
    try:
        _check_window(case, rec)
    except (Violation, Discard):
        raise
    except Exception as e:
        # integrating or sampling a boundary of a window / refined window is always defined: an exception here is the library's
        import traceback
        tb = traceback.extract_tb(e.__traceback__)
        inner = next((f'{os.path.basename(fr.filename)}:{fr.name}' for fr in reversed(tb) if '/nutils/' in fr.filename), 'harness')
        if inner == 'harness':
            raise
        raise Violation('op-raised', f'window {case["slices"]} of rectilinear({case["shape"]}, periodic={case["periodic"]}): {type(e).__name__}: {str(e)[:200]} in {inner}', where=f'window:raised:{type(e).__name__}')


def _check_window(case, rec):
    from nutils import mesh, function
    shape = case['shape']; nd = len(shape)
    with warnings.catch_warnings():
        warnings.simplefilter('ignore')
        domain, x = mesh.rectilinear(shape, periodic=case['periodic'])
        geom = x if case['geom'] == 'identity' else x @ (numpy.eye(nd) + .25 * numpy.triu(numpy.ones((nd, nd)), 1)) + .5
        J = function.J(geom); n = function.normal(geom)
        index = tuple(slice(None) if s is None else slice(*s) for s in case['slices'])
        try:
            window = domain[index]
        except Exception as e:
            raise Violation('op-raised', f'rectilinear({shape}, periodic={case["periodic"]})[{index}]: {type(e).__name__}: {str(e)[:200]}', where='window:slice:' + type(e).__name__)
        # a direction that is still periodic in the window (not sliced) keeps the domain open in that direction: closedness needs all periodic directions sliced
        still_periodic = [d for d in case['periodic'] if case['slices'][d] is None]
        nelems = int(numpy.prod([shape[d] if s is None else s[1] - s[0] for d, s in enumerate(case['slices'])]))
        if len(window) != nelems:
            raise Violation('length', f'window {index} of {shape} has {len(window)} elements, expected {nelems}', where='window:length')
        detM = 1. if case['geom'] == 'identity' else 1.
        vol = float(window.integrate(J, degree=2))
        if abs(vol - nelems * detM) > 1e-10 * (1 + vol):
            raise Violation('measure-changed', f'window {index} of {shape}: measure {vol}, {nelems} unit elements', where='window:measure')
        def closed(topo, label):
            if still_periodic or nd < 1: return
            bnd = topo.boundary
            a, b = bnd.integrate([n * J, (geom * n).sum(-1) * J], degree=2)
            v = float(topo.integrate(J, degree=2))
            if abs(numpy.asarray(a)).max() > 1e-10 * (1 + v) or abs(float(b) - nd * v) > 1e-9 * (1 + v):
                raise Violation('boundary-not-closed', f'{label} of rectilinear({shape}, periodic={case["periodic"]})[{index}]: boundary integral of n = {numpy.asarray(a).tolist()}, flux of x = {float(b)} vs dim*volume {nd * v}', where='window:closed:' + label.split('(')[0])
            if abs(v - vol) > 1e-10 * (1 + vol):
                raise Violation('measure-changed', f'{label}: measure {v}, window {vol}', where='window:measure:' + label.split('(')[0])
        def centres(btopo):
            X = numpy.asarray(btopo.sample('gauss', 1).eval(geom))
            return sorted(map(tuple, numpy.round(X, 9).tolist()))
        closed(window, 'window')
        k = case['nref']
        if nd >= 2 or not still_periodic:
            try:
                b1 = window.boundary.refine(k); b2 = window.refine(k).boundary
            except Exception as e:
                raise Violation('op-raised', f'boundary/refine({k}) of window {index} of {shape} periodic {case["periodic"]}: {type(e).__name__}: {str(e)[:200]}', where='window:refine:' + type(e).__name__)
            if nd >= 2:
                c1, c2 = centres(b1), centres(b2)
                if c1 != c2:
                    raise Violation('refine-boundary-commute', f'rectilinear({shape}, periodic={case["periodic"]})[{index}]: boundary.refine({k}) and refine({k}).boundary have different faces ({len(c1)} vs {len(c2)}; first difference {next((p, q) for p, q in zip(c1 + [None], c2 + [None]) if p != q)})', where='window:commute')
                f1 = numpy.asarray(b1.integrate(n * J * (1 + geom[0]), degree=2)); f2 = numpy.asarray(b2.integrate(n * J * (1 + geom[0]), degree=2))
                if abs(f1 - f2).max() > 1e-10 * (1 + abs(f2).max()):
                    raise Violation('refine-boundary-commute', f'rectilinear({shape}, periodic={case["periodic"]})[{index}]: weighted normal integral over boundary.refine({k}) {f1.tolist()} vs refine({k}).boundary {f2.tolist()}', where='window:commute-flux')
            closed(window.refine(k), f'refine({k})')
        # hierarchical refinement of selected elements, twice
        h1 = window.refined_by(sorted({i % len(window) for i in case['sel']} | {0, len(window) - 1}))
        closed(h1, 'refined_by(ends)')
        if case['sel2']:
            h2 = h1.refined_by(sorted({i % len(h1) for i in case['sel2']} | {len(h1) - 1}))
            closed(h2, 'refined_by(ends).refined_by')
    rec.nontrivial = bool(case['periodic']) and any(case['slices'][d] is not None for d in case['periodic'])
    rec.label('window-ndims=%d' % nd, *(['window-of-periodic-direction'] if rec.nontrivial else []), *(['still-periodic'] if still_periodic else []))


# ---- unions of sub-topologies, common refinements, products ------------------------------------------------------------------------

@st.composite
def setops_cases(draw, tier):
    kind = draw(st.sampled_from(['union', 'union', 'hier-and', 'hier-and', 'product']))
    return dict(kind=kind, mesh=draw(st.sampled_from(['rect', 'rect', 'tri'])), n=[draw(st.integers(1, 3)), draw(st.integers(1, 2))],
                a=draw(st.sampled_from([.15, .25, .3, .45, .6])), b=draw(st.sampled_from([.35, .5, .55, .75, .8])), axis=draw(st.integers(0, 1)), maxrefine=draw(st.integers(0, 2)),
                sel=[[draw(st.integers(0, 40)) for _ in range(draw(st.integers(1, 3)))] for _ in range(draw(st.integers(1, 3)))],
                sel2=[[draw(st.integers(0, 40)) for _ in range(draw(st.integers(1, 3)))] for _ in range(draw(st.integers(0, 3)))])


def check_setops(case, rec):
    try:
        _check_setops(case, rec)
    except (Violation, Discard):
        raise
    except NotImplementedError:
        raise Discard('operation-not-implemented-for-this-combination')
    except Exception as e:
        if isinstance(e, TypeError) and 'unsupported operand type(s) for |' in str(e):
            raise Discard('union-of-two-cut-parts-of-one-element-not-supported')      # Python's own way of refusing an operand combination (mosaic | mosaic)
        import traceback
        tb = traceback.extract_tb(e.__traceback__)
        inner = next((f'{os.path.basename(fr.filename)}:{fr.name}' for fr in reversed(tb) if '/nutils/' in fr.filename), 'harness')
        if inner == 'harness': raise
        raise Violation('op-raised', f'{case["kind"]} {case}: {type(e).__name__}: {str(e)[:200]} in {inner}', where=f'setops:{case["kind"]}:{type(e).__name__}')


def _check_setops(case, rec):
    from nutils import mesh, function
    with warnings.catch_warnings():
        warnings.simplefilter('ignore')
        if case['mesh'] == 'rect':
            topo, x = mesh.rectilinear([numpy.linspace(0, 1, k + 1) for k in case['n']])
        else:
            topo, x = mesh.unitsquare(max(case['n'][0], 1), 'triangle')
        J = function.J(x); n = function.normal(x)
        meas = lambda t: float(t.integrate(J, degree=4)) if len(t) else 0.
        def closed(t, label):
            bnd = t.boundary
            a_, b_ = bnd.integrate([n * J, (x * n).sum(-1) * J], degree=4)
            v = meas(t)
            if abs(numpy.asarray(a_)).max() > 1e-10 * (1 + v) or abs(float(b_) - 2 * v) > 1e-9 * (1 + v):
                raise Violation('boundary-not-closed', f'{label}: boundary integral of n = {numpy.asarray(a_).tolist()}, flux of x = {float(b_)} vs 2*measure {2 * v}', where='setops:closed:' + case['kind'])
        kind = case['kind']
        ax = case['axis']
        if kind == 'union':
            a, b = case['a'], case['b']
            mr = case['maxrefine']
            A = topo.trim(a - x[ax], maxrefine=mr)          # x < a
            B = topo.trim(x[ax] - b, maxrefine=mr)          # x > b
            C = topo.trim(max(a, b) + .1 - x[ax], maxrefine=mr)   # x < max(a,b)+.1  (contains A)
            mA, mB, mC, mT = meas(A), meas(B), meas(C), meas(topo)
            if not len(A) or not len(B): raise Discard('empty-part')
            U = A | B
            mU = meas(U)
            if a <= b:      # disjoint (up to the shared approximate cut when a == b cannot happen: the value lists differ)
                if abs(mU - (mA + mB)) > 1e-10:
                    raise Violation('union-measure', f'|{{x<{a}}} | {{x>{b}}}| = {mU}, parts {mA} + {mB} = {mA + mB} (mesh {case["mesh"]} {case["n"]}, axis {ax}, maxrefine {mr})', where='setops:union-disjoint')
            else:           # overlapping halves cover the whole domain
                if abs(mU - mT) > 1e-10:
                    raise Violation('union-measure', f'|{{x<{a}}} | {{x>{b}}}| = {mU} but the two overlapping parts cover the domain of measure {mT}', where='setops:union-cover')
            N = A | C
            if abs(meas(N) - mC) > 1e-10:
                raise Violation('union-measure', f'A | C with A inside C has measure {meas(N)}, C {mC}, A {mA}', where='setops:union-nested')
            comp = topo - U
            if abs(meas(comp) + mU - mT) > 1e-10:
                raise Violation('union-measure', f'|domain - (A|B)| + |A|B| = {meas(comp) + mU} != {mT}', where='setops:union-complement')
            rec.label('setops:union:' + ('disjoint' if a <= b else 'cover'))
        elif kind == 'hier-and':
            A = topo
            for sel in case['sel']:
                if len(A) > 60: break
                A = A.refined_by(sorted({i % len(A) for i in sel}))
            B = topo
            for sel in case['sel2']:
                if len(B) > 60: break
                B = B.refined_by(sorted({i % len(B) for i in sel}))
            C = A & B
            mT = meas(topo)
            if abs(meas(C) - mT) > 1e-10 or abs(meas(A) - mT) > 1e-10:
                raise Violation('measure-changed', f'common refinement A & B has measure {meas(C)}, the domain {mT} (levels {len(case["sel"])} / {len(case["sel2"])}, sel {case["sel"]} {case["sel2"]})', where='setops:and-measure')
            if len(C) < max(len(A), len(B)):
                raise Violation('common-refinement', f'A & B has {len(C)} elements, A {len(A)}, B {len(B)}', where='setops:and-count')
            closed(C, 'A & B')
            # every element of the common refinement is at least as fine as both: its measure does not exceed that of the elements of A and of B containing its midpoint
            rec.label('setops:and:levels=%d/%d' % (len(case['sel']), len(case['sel2'])))
        else:
            X, xx = mesh.rectilinear([numpy.linspace(0, 1.5, case['n'][0] + 1)], space='X')
            T, tt = mesh.rectilinear([numpy.linspace(0, 2, case['n'][1] + 1)], space='T')
            P = X * T
            g = numpy.stack([xx[0], tt[0]])
            Jp = function.J(xx) * function.J(tt)
            mp = float(P.integrate(Jp, degree=2))
            if abs(mp - 3.) > 1e-12:
                raise Violation('measure-changed', f'|X x T| = {mp}, |X||T| = 3', where='setops:product-measure')
            Pr = P.refined
            if abs(float(Pr.integrate(Jp, degree=2)) - 3.) > 1e-12 or len(Pr) != 4 * len(P):
                raise Violation('measure-changed', f'refined product: measure {float(Pr.integrate(Jp, degree=2))}, {len(Pr)} elements for {len(P)}', where='setops:product-refined')
            nb = (X.boundary * T).integrate(function.normal(xx) * function.J(tt), degree=2)
            if abs(numpy.asarray(nb)).max() > 1e-12:
                raise Violation('boundary-not-closed', f'boundary(X) x T: integral of n_x = {numpy.asarray(nb).tolist()}', where='setops:product-closed')
            rec.label('setops:product')
    rec.nontrivial = True


SUBS = [Sub('history', cases, check, {'quick': 150, 'thorough': 3000}, weight=4, timeout=180),
        Sub('windows', window_cases, check_window, {'quick': 150, 'thorough': 3000}, weight=1, timeout=120),
        Sub('setops', setops_cases, check_setops, {'quick': 100, 'thorough': 2000}, weight=1, timeout=120)]


# ---- known findings ---------------------------------------------------------------------------------------

def _ops_of(case, v):
    ops = v.info.get('ops')
    if isinstance(ops, str):
        import ast
        try: ops = ast.literal_eval(ops)
        except Exception: ops = None
    return ops if ops is not None else case['mesh']['ops']


def _t_refine_after_trim0(case, v):
    ops = _ops_of(case, v)
    names = [o[0] for o in ops]
    # a trimmed element carries explicit children maxrefine levels deep; the next refinement reaches a MosaicReference, which has no children
    for k, o in enumerate(ops):
        if o[0] == 'trim' and sum(1 for q in ops[k + 1:] if q[0] in ('refine', 'refined_by')) > o[3]:
            return 'MosaicReference' in v.detail
    return False


def _t_boundary_of_take(case, v):
    ops = _ops_of(case, v)
    names = [o[0] for o in ops]
    return "no attribute 'connectivity'" in v.detail and 'take' in names


def _t_boundary_of_trimmed_hierarchical(case, v):
    ops = _ops_of(case, v)
    names = [o[0] for o in ops]
    return "no attribute 'connectivity'" in v.detail and 'refined_by' in names and 'trim' in names and names.index('refined_by') < names.index('trim')


def _t_refined_by_after_trim(case, v):
    ops = _ops_of(case, v)
    names = [o[0] for o in ops]
    return 'trim' in names and 'refined_by' in names[names.index('trim'):]


TRIGGERS = {'refine-after-trim-maxrefine0': _t_refine_after_trim0, 'boundary-of-element-selection': _t_boundary_of_take,
            'boundary-of-trimmed-hierarchical': _t_boundary_of_trimmed_hierarchical, 'refined-by-after-trim': _t_refined_by_after_trim}

MANIFEST = dict(
    category='exploration',
    technique='stateful / history-based property testing (Hypothesis): generated topology operation sequences with conservation invariants checked after every step (measure bookkeeping, closed boundary, divergence identities, interface-once identity)',
    text='Generated histories of refine/refined_by/take/trim/boundary/interfaces on eight mesh kinds and three geometry kinds are checked after every step: measure conservation and partition, closed boundary (integral of n == 0, flux of x == dim*volume), '
         'opposite orientation of the cut, and the identity that equates the interface integral of jump(c) n with the boundary integral of c n for a generic element-wise constant c (every interior face exactly once). Held on everything explored; <=5 operations, <=64 elements.',
    note='Trusted: Gauss quadrature of sufficient degree; the identities are calibrated on the base mesh of each case. Known unsupported operation combinations are recorded as open findings.',
)
