"""C10 — Topology operations conserve the domain (DESIGN.md §4 C10)."""
import numpy, warnings
from hypothesis import strategies as st
from vlib.core import Sub, Violation, Discard
from vlib import gentopo

PROPERTY = 'C10'
LEVEL = 'exploration'
BUDGET = {'quick': 55, 'thorough': 550}
SHARDS = {'quick': 8, 'thorough': 16}
RULE = ('cases: histories of 1..5 topology operations (refine, refined_by(subset), take, trim by an affine level set with maxrefine 0..2, boundary, boundary group, interfaces) generated on '
        'line/rectilinear/periodic/3-D/triangle/mixed/multipatch/tetrahedral meshes with identity, affine or quadratic geometry. After every step of the history: (measure) refinement and '
        'refined_by preserve the measure, every element\'s measure equals the sum of its children, take selects exactly the chosen elements\' measures, |trim|+|complement|==|original| '
        'regardless of where the approximate cut lies; (closed) for volume topologies: boundary integral of n J == 0 and of x.n J == dim*|domain|; the trimmed groups of a domain and its '
        'complement carry opposite normals; (interfaces) for a generic element-wise constant c: integral over interfaces of jump(c) n J equals the boundary integral of c n J, which holds '
        'iff every interior face appears exactly once between its two neighbours; jump(x)==0. non-trivial: >=2 operations including refined_by or trim; distinct = case hash')
ASSUMPTIONS = ['Gauss degree chosen high enough for the polynomial integrands (geometry degree <=2, dims <=3)', 'measures are compared to 1e-10 relative',
               'the identities are first confirmed on the un-operated base mesh of the same case (a failure there is a harness error, not a violation)']

TOL = 1e-10
DEG = [8]


@st.composite
def cases(draw, tier):
    r = draw(gentopo.recipes(minops=1, kinds=['line', 'rect', 'rect', 'tri', 'tri', 'mixed', 'multipatch', 'periodic', 'rect3', 'simplex3', 'rect', 'tri'], maxops=3 if tier == 'quick' else 5, ops=('refine', 'refined_by', 'refined_by', 'take', 'trim', 'trim', 'boundary', 'interfaces', 'boundary-group'), maxn=2))
    return dict(mesh=r, csalt=draw(st.integers(1, 50)))


def measure(topo, geom, degree=None):
    degree = degree or (6 if DEG[0] == 8 else 3)
    from nutils import function
    return float(topo.integrate(function.J(geom), degree=degree))


def elem_measures(topo, geom, degree=None):
    degree = degree or (6 if DEG[0] == 8 else 3)
    from nutils import function
    return numpy.asarray(topo.integrate_elementwise(function.J(geom), degree=degree))


def closedness(topo, geom, vol, where, applied):
    from nutils import function
    bnd = topo.boundary
    n = function.normal(geom)
    J = function.J(geom)
    a, b = bnd.integrate([n * J, (geom * n).sum(-1) * J], degree=DEG[0])
    a = numpy.asarray(a); b = float(b)
    scale = 1 + abs(vol)
    if abs(a).max() > TOL * scale:
        raise Violation('boundary-not-closed', f'{where}: boundary integral of n is {a.tolist()} (ops {applied})', where='closed:' + _sig(applied))
    if abs(b - topo.ndims * vol) > 1e-9 * scale:
        raise Violation('boundary-not-closed', f'{where}: boundary flux of x is {b}, dim*volume {topo.ndims * vol} (ops {applied})', where='flux:' + _sig(applied))
    return bnd


def interfaces_once(topo, geom, bnd, salt, where, applied):
    from nutils import function
    ifaces = topo.interfaces
    c = numpy.sin(function.Array.cast(topo.f_index) * (1. + salt / 7.)) + 2.
    n = function.normal(geom); J = function.J(geom)
    degree = DEG[0]
    I = numpy.asarray(ifaces.integrate(function.jump(c) * n * J, degree=degree)) if len(ifaces) else numpy.zeros(topo.ndims)
    B = numpy.asarray(bnd.integrate(c * n * J, degree=degree))
    # sum over elements of c_e * closed surface integral of n == 0  =>  boundary term == interface term of jump
    if abs(B - I).max() > 1e-9 * (1 + abs(B).max()):
        raise Violation('interfaces-not-once', f'{where}: interface integral of jump(c) n = {I.tolist()}, boundary integral of c n = {B.tolist()} (ops {applied}, {len(ifaces)} interfaces)', where='interfaces:' + _sig(applied))
    if len(ifaces):
        j = numpy.asarray(ifaces.sample('gauss', 2).eval(function.jump(geom)))
        if abs(j).max() > 1e-12:
            raise Violation('interface-mismatch', f'{where}: jump(x) = {abs(j).max():.2e} on interfaces (ops {applied})', where='jump:' + _sig(applied))


def _sig(applied):
    return '>'.join(a[0] + (str(a[3]) if a[0] == 'trim' else '') for a in applied) or 'base'


def check(case, rec):
    from nutils import function, mesh
    r = case['mesh']
    with warnings.catch_warnings():
        warnings.simplefilter('ignore')
        topo0, x = gentopo.base_mesh(r)
        geom, _ = gentopo.geometry(x, r['geom'], topo0.ndims)
        DEG[0] = 8 if r['geom']['kind'] == 'quadratic' else 4
        periodic = r['kind'] == 'periodic'
        vol0 = measure(topo0, geom)
        # calibration on the base mesh: a failure here is a harness problem
        if not periodic:
            try:
                b0 = closedness(topo0, geom, vol0, 'base', [])
                interfaces_once(topo0, geom, b0, case['csalt'], 'base', [])
            except Violation as v:
                if r['kind'] in ('multipatch',):
                    raise
                raise
        topo = topo0
        applied = []
        vol = vol0
        for op in r['ops']:
            name = op[0]
            prev, prevvol = topo, vol
            involume = topo.ndims == topo0.ndims
            try:
                topo, done = gentopo.apply_ops(topo, x, [op], strict=True) if not applied else _apply(topo, x, op, applied)
            except Exception as e:
                raise Violation('op-raised', f'{_sig(applied)} > {name}: {type(e).__name__}: {str(e)[:200]}', where=f'op:{_sig(applied + [op])}:{type(e).__name__}', ops=[a for a in applied] + [op], exc=type(e).__name__)
            if not done:
                continue
            applied.append(op)
            where = _sig(applied)
            if len(topo) == 0:
                raise Discard('empty-topology')
            try:
                if name in ('refine', 'refined_by') and involume:
                    vol = measure(topo, geom)
                    if abs(vol - prevvol) > TOL * (1 + abs(prevvol)):
                        raise Violation('measure-changed', f'{where}: measure {vol} after refinement, {prevvol} before', where='measure:' + where)
                elif name == 'take' and involume:
                    em = elem_measures(prev, geom)
                    sel = sorted({i % len(prev) for i in op[1]})
                    vol = measure(topo, geom)
                    if abs(vol - em[sel].sum()) > TOL * (1 + abs(vol)):
                        raise Violation('measure-changed', f'{where}: measure {vol} of the selection, selected elements sum to {em[sel].sum()}', where='measure:' + where)
                elif name == 'trim' and involume:
                    c = op[1]
                    lev = sum(ci * x[i] for i, ci in enumerate(c[:topo.ndims])) - op[2] * (sum(abs(ci) for ci in c[:topo.ndims]) or 1)
                    comp = prev.trim(-lev, maxrefine=op[3])
                    vol = measure(topo, geom)
                    vc = measure(comp, geom) if len(comp) else 0.
                    if abs(vol + vc - prevvol) > TOL * (1 + abs(prevvol)):
                        raise Violation('trim-partition', f'{where}: |trim|={vol} + |complement|={vc} != |original|={prevvol}', where='partition:' + where)
                    if not periodic and len(comp) and not any(a[0] in ('take',) for a in applied):
                        n = function.normal(geom); J = function.J(geom)
                        try:
                            t1 = topo.boundary['trimmed']; t2 = comp.boundary['trimmed']
                        except (KeyError, AttributeError):
                            t1 = t2 = None
                        if t1 is not None and len(t1) and len(t2):
                            f = 1 + geom[0] + .5 * (geom * geom).sum(-1)
                            a1 = numpy.asarray(t1.integrate(f * n * J, degree=8)); a2 = numpy.asarray(t2.integrate(f * n * J, degree=8))
                            if abs(a1 + a2).max() > 1e-9 * (1 + abs(a1).max()):
                                raise Violation('cut-orientation', f'{where}: trimmed boundaries of domain and complement give {a1.tolist()} and {a2.tolist()} (should cancel)', where='cut:' + where)
                            rec.label('cut-orientation-checked')
                elif name in ('boundary', 'boundary-group', 'interfaces'):
                    pass
                # closedness and interfaces of the current volume topology
                if topo.ndims == topo0.ndims and not periodic and not any(a[0] == 'take' for a in applied):
                    try:
                        bnd = closedness(topo, geom, vol, where, applied)
                    except AttributeError as e:
                        raise Violation('op-raised', f'{where} > boundary: {type(e).__name__}: {str(e)[:200]}', where=f'op:{where}>boundary:AttributeError', ops=list(applied) + [['boundary']], exc='AttributeError')
                    try:
                        interfaces_once(topo, geom, bnd, case['csalt'], where, applied)
                    except AttributeError as e:
                        raise Violation('op-raised', f'{where} > interfaces: {type(e).__name__}: {str(e)[:200]}', where=f'op:{where}>interfaces:AttributeError', ops=list(applied) + [['interfaces']], exc='AttributeError')
                    rec.label('closed-checked')
                nref = len(topo.references)
                if nref != len(topo) or len(topo.transforms) != len(topo):
                    raise Violation('length', f'{where}: len(topo)={len(topo)} references={nref} transforms={len(topo.transforms)}', where='length')
            except Violation as v:
                v.info.setdefault('ops', list(applied))
                raise
        if not applied:
            raise Discard('no-operation-applied')
    rec.nontrivial = len(applied) >= 2 and any(a[0] in ('refined_by', 'trim') for a in applied)
    for a in applied: rec.label('op:' + a[0])
    rec.label('mesh:' + r['kind'], 'geom:' + r['geom']['kind'])


def _apply(topo, x, op, applied):
    """strict application of one more operation given the ones already applied (for gentopo's applicability rules)"""
    from nutils import function
    name = op[0]
    done = [a[0] for a in applied]
    if name == 'refine':
        if len(topo) > 64: return topo, []
        return topo.refined, [op]
    if name == 'refined_by':
        if len(topo) == 0 or len(topo) > 64: return topo, []
        return topo.refined_by(sorted({i % len(topo) for i in op[1]})), [op]
    if name == 'take':
        if len(topo) <= 1: return topo, []
        return topo.take(sorted({i % len(topo) for i in op[1]})), [op]
    if name == 'trim':
        if any(d in ('boundary', 'interfaces', 'boundary-group', 'trim') for d in done) or len(topo) > 40: return topo, []
        c = op[1]
        lev = sum(ci * x[i] for i, ci in enumerate(c[:topo.ndims])) - op[2] * (sum(abs(ci) for ci in c[:topo.ndims]) or 1)
        t2 = topo.trim(lev, maxrefine=op[3])
        return (t2, [op]) if len(t2) else (topo, [])
    if name == 'boundary':
        if topo.ndims < 2 or any(d in ('boundary', 'interfaces', 'boundary-group') for d in done): return topo, []
        b = topo.boundary; len(b.transforms)
        return b, [op]
    if name == 'interfaces':
        if topo.ndims < 1 or any(d in ('boundary', 'interfaces', 'boundary-group') for d in done): return topo, []
        t2 = topo.interfaces
        return (t2, [op]) if len(t2) else (topo, [])
    if name == 'boundary-group':
        if topo.ndims < 2 or any(d in ('boundary', 'interfaces', 'boundary-group') for d in done): return topo, []
        try:
            return topo.boundary[op[1]], [op]
        except KeyError:
            return topo, []
    return topo, []


SUBS = [Sub('history', cases, check, {'quick': 150, 'thorough': 3000}, timeout=180)]


# ---- known findings ---------------------------------------------------------------------------------------

def _ops_of(case, v):
    ops = v.info.get('ops')
    if isinstance(ops, str):
        import ast
        try: ops = ast.literal_eval(ops)
        except Exception: ops = None
    return ops if ops is not None else case['mesh']['ops']


def _t_refine_after_trim0(case, v):
    ops = _ops_of(case, v)
    names = [o[0] for o in ops]
    return 'MosaicReference' in v.detail and any(o[0] == 'trim' and o[3] == 0 for o in ops) and any(n in ('refine', 'refined_by') for n in names)


def _t_boundary_of_take(case, v):
    ops = _ops_of(case, v)
    names = [o[0] for o in ops]
    return "no attribute 'connectivity'" in v.detail and 'take' in names


def _t_boundary_of_trimmed_hierarchical(case, v):
    ops = _ops_of(case, v)
    names = [o[0] for o in ops]
    return "no attribute 'connectivity'" in v.detail and 'refined_by' in names and 'trim' in names and names.index('refined_by') < names.index('trim')


def _t_refined_by_after_trim(case, v):
    ops = _ops_of(case, v)
    names = [o[0] for o in ops]
    return 'trim' in names and 'refined_by' in names[names.index('trim'):]


TRIGGERS = {'refine-after-trim-maxrefine0': _t_refine_after_trim0, 'boundary-of-element-selection': _t_boundary_of_take,
            'boundary-of-trimmed-hierarchical': _t_boundary_of_trimmed_hierarchical, 'refined-by-after-trim': _t_refined_by_after_trim}

MANIFEST = dict(
    category='exploration',
    technique='stateful / history-based property testing (Hypothesis): generated topology operation sequences with conservation invariants checked after every step (measure bookkeeping, closed boundary, divergence identities, interface-once identity)',
    text='Generated histories of refine/refined_by/take/trim/boundary/interfaces on eight mesh kinds and three geometry kinds are checked after every step: measure conservation and partition, closed boundary (integral of n == 0, flux of x == dim*volume), '
         'opposite orientation of the cut, and the identity that equates the interface integral of jump(c) n with the boundary integral of c n for a generic element-wise constant c (every interior face exactly once). Held on everything explored; <=5 operations, <=64 elements.',
    note='Trusted: Gauss quadrature of sufficient degree; the identities are calibrated on the base mesh of each case. Known unsupported operation combinations are recorded as open findings.',
)
