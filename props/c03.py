"""C03 — Compiled functions are pure functions of their arguments across calls (DESIGN.md §4 C03)."""
import numpy, sys, copy
from hypothesis import strategies as st
from vlib.core import Sub, Violation, Discard
from vlib import genexpr, evharness

PROPERTY = 'C03'
LEVEL = 'exploration'
BUDGET = {'quick': 50, 'thorough': 540}
SHARDS = {'quick': 8, 'thorough': 16}
RULE = ('cases: a G_ev program with arguments (1-2 outputs) compiled once with a drawn configuration, then a generated history of 2..30 steps: call with '
        'new / repeated / partially changed argument values (passed as fresh arrays, read-only arrays, non-contiguous views or lists), scribble over a '
        'previously returned result (must either be writable and not influence anything, or refuse the write), mutate the caller\'s input arrays after a call. '
        'After every call: result bit-identical to a freshly compiled function called once with the same arguments, and equal to the numpy interpreter when that '
        'is finite; argument arrays bit-identical to copies taken before; all earlier results unchanged unless the harness wrote to memory they share. '
        'Second sub: long-lived compiled functions behind Basis.get_dofs/get_coefficients/get_support and solver.System.assemble in arbitrary call order vs fresh objects. '
        'non-trivial: >=2 calls with different values, >=1 repeat and >=1 scribble on a writable result; distinct = case hash')
ASSUMPTIONS = ['a result that is a view of the caller\'s own input array is legitimate; writes through it are the caller\'s doing', 'fresh compile + single call is the reference for "what a freshly generated function would return"']


@st.composite
def cases(draw, tier):
    big = tier == 'thorough' and draw(st.booleans())
    prog = draw(genexpr.programs(maxnodes=24 if big else 12, maxdepth=7 if big else 5, maxloops=2, nouts=2, arg_bias=4, out_dtypes=('int', 'float', 'complex', 'float')))
    cfg = dict(simplify=draw(st.booleans()), optimize=draw(st.booleans()), cache=draw(st.sampled_from([True, True, False])), stats=draw(st.sampled_from([None, None, 'log'])))
    nsteps = draw(st.integers(2, 10 if tier == 'quick' else 30))
    steps = []
    for _ in range(nsteps):
        kind = draw(st.sampled_from(['call-new', 'call-new', 'call-repeat', 'call-change-one', 'scribble', 'scribble', 'mutate-input']))
        s = dict(kind=kind)
        if kind.startswith('call'):
            s['variant'] = draw(st.integers(0, 5))
            s['which'] = draw(st.integers(0, 7))
            s['pass'] = draw(st.sampled_from(['fresh', 'fresh', 'readonly', 'noncontig', 'list']))
        else:
            s['k'] = draw(st.integers(0, 30))
            s['out'] = draw(st.integers(0, 1))
        steps.append(s)
    return dict(prog=prog, cfg=cfg, steps=steps)


def variant_args(prog, variants):
    """variants: dict name -> variant index"""
    out = {}
    for name, a in prog['args'].items():
        k = variants.get(name, 0)
        v = genexpr._arr(a['value'], a['dtype'], a['shape'])
        if 'range' in a:
            v = (v + k) % a['range']
        elif a['dtype'] == 'int':
            v = v + k
        else:
            v = v + .25 * k
        out[name] = v
    return out


def _pass(v, how):
    if how == 'readonly':
        w = v.copy(); w.setflags(write=False); return w
    if how == 'noncontig' and v.ndim >= 1 and v.shape[-1] >= 1:
        big = numpy.zeros(v.shape[:-1] + (2 * v.shape[-1],), dtype=v.dtype)
        big[..., ::2] = v
        return big[..., ::2]
    if how == 'list' and v.size:
        return v.tolist()
    return v.copy()


def _compile(target, cfg):
    from nutils import evaluable
    return evaluable.compile(target, stats=cfg['stats'] or False, cache_const_intermediates=cfg['cache'], _simplify=cfg['simplify'], _optimize=cfg['optimize'])


def check(case, rec):
    from nutils import evaluable
    prog, cfg = case['prog'], case['cfg']
    if not prog['args']:
        raise Discard('no-arguments')
    try:
        outs, built = genexpr.build(prog)
    except Exception as e:
        raise Violation('construct-raised', f'{type(e).__name__}: {e}', where='build:' + type(e).__name__)
    nn = len(prog['nodes'])
    sys.setrecursionlimit(3000)
    evharness.clear_cache(*outs)
    with evharness.RewriteTrace(bound=4000 + 1000 * nn, record=False):
        try:
            for o in outs: o.simplified
        except (evharness.StepBound, RecursionError):
            raise Discard('upstream-C01-nontermination')
        except Exception as e:
            raise Discard('upstream-C01-simplify-raised')
    target = tuple(outs)
    try:
        f = _compile(target, cfg)
    except Exception as e:
        raise Discard('upstream-C02-compile-raised')
    names = sorted(prog['args'])
    current = {n: 0 for n in names}
    results = []      # list of dict(arrays=[...], snap=[...], touched=[bool...])
    inputs_alive = [] # arrays passed by the harness that it may later mutate
    ncalls = nrepeat = nscribble_w = ndistinct = 0
    seen_variants = set()
    last_inputs = None
    for si, s in enumerate(case['steps']):
        kind = s['kind']
        if kind.startswith('call'):
            if kind == 'call-new':
                current = {n: (s['variant'] + i) % 6 for i, n in enumerate(names)}
            elif kind == 'call-change-one':
                n = names[s['which'] % len(names)]
                current = dict(current); current[n] = (current[n] + 1 + s['variant']) % 6
            else:
                nrepeat += 1
            vals = variant_args(prog, current)
            passed = {n: _pass(v, s['pass']) for n, v in vals.items()}
            before = {n: numpy.array(v, copy=True) for n, v in vals.items()}
            try:
                got = f(passed)
            except Exception as e:
                # is the call outside the domain, i.e. does a fresh function raise as well?
                try:
                    _compile(target, cfg)({n: v.copy() for n, v in vals.items()})
                except Exception:
                    continue
                raise Violation('call-raised', f'step {si}: reused function raised {type(e).__name__}: {str(e)[:200]} where a fresh one succeeds', where='call-raised:' + type(e).__name__)
            try:
                fresh = _compile(target, cfg)({n: _pass(v, s['pass']) for n, v in vals.items()})   # same memory layout: summation order may depend on it
            except Exception as e:
                raise Violation('fresh-raised', f'step {si}: fresh function raised {type(e).__name__}: {str(e)[:200]} where the reused one returned', where='fresh-raised')
            ncalls += 1
            key = tuple(sorted(current.items()))
            if key not in seen_variants:
                seen_variants.add(key); ndistinct += 1
            for k, (g, r) in enumerate(zip(got, fresh)):
                g = numpy.asarray(g); r = numpy.asarray(r)
                if g.shape != r.shape or g.dtype != r.dtype or not numpy.array_equal(g, r, equal_nan=True):
                    raise Violation('history-dependence', f'step {si} output {k} cfg {cfg}: reused function returned {g.tolist()} but a fresh function returns {r.tolist()}',
                                    where=f's{int(cfg["simplify"])}o{int(cfg["optimize"])}c{int(cfg["cache"])}')
            # arguments untouched
            for n in names:
                if isinstance(passed[n], numpy.ndarray) and not numpy.array_equal(numpy.asarray(passed[n]), before[n]):
                    raise Violation('argument-modified', f'step {si}: argument {n} changed from {before[n].tolist()} to {numpy.asarray(passed[n]).tolist()}', where='argument-modified')
            # independent reference, when defined
            try:
                r = genexpr.Ref(prog)
                want = r.run(args={n: v for n, v in vals.items()})
                for k, (g, w) in enumerate(zip(got, want)):
                    bad = evharness.close(g, w, 1e-6 * (1 + (abs(w).max() if w.size else 0)))
                    if bad and w.dtype.kind in 'fc':
                        # tolerance here is loose on purpose (conditioning is C01/C02's business); only gross errors count
                        if abs(numpy.asarray(g) - w).max() > 1e-3 * (1 + abs(w).max()):
                            rec.label('ref-mismatch-upstream')
            except genexpr.NonFinite:
                pass
            results.append(dict(arrays=[numpy.asarray(g) for g in got], snap=[numpy.array(g, copy=True) for g in got], touched=[False] * len(got), passed=passed))
            last_inputs = passed
        elif kind == 'scribble':
            if not results:
                continue
            r = results[s['k'] % len(results)]
            k = s['out'] % len(r['arrays'])
            a = r['arrays'][k]
            if a.ndim == 0 and not isinstance(a, numpy.ndarray):
                continue
            if a.flags.writeable:
                shares_input = any(isinstance(p, numpy.ndarray) and numpy.shares_memory(a, p) for p in r['passed'].values())
                a[...] = numpy.array(97, dtype=a.dtype) if a.dtype != bool else ~a
                # everything that shares memory with `a` is now legitimately changed
                for r2 in results:
                    for j, b in enumerate(r2['arrays']):
                        if numpy.shares_memory(a, b):
                            r2['touched'][j] = True
                if not shares_input:
                    nscribble_w += 1
            else:
                try:
                    a[...] = 0
                except (ValueError, RuntimeError):
                    continue
                raise Violation('readonly-write-accepted', f'step {si}: write into a read-only result succeeded', where='readonly')
        elif kind == 'mutate-input':
            if last_inputs is None:
                continue
            for p in last_inputs.values():
                if isinstance(p, numpy.ndarray) and p.flags.writeable and p.size:
                    p[...] = p + 1 if p.dtype != bool else ~p
                    for r2 in results:
                        for j, b in enumerate(r2['arrays']):
                            if numpy.shares_memory(p, b):
                                r2['touched'][j] = True
        # invariant: untouched earlier results keep their values
        for ri, r in enumerate(results):
            for j, (a, snap) in enumerate(zip(r['arrays'], r['snap'])):
                if not r['touched'][j] and not numpy.array_equal(a, snap, equal_nan=True):
                    raise Violation('earlier-result-changed', f'after step {si} ({kind}): result {ri} output {j} changed from {snap.tolist()} to {a.tolist()} (cfg {cfg})',
                                    where=f'earlier-result:{kind}')
    rec.nontrivial = ndistinct >= 2 and nrepeat >= 1 and nscribble_w >= 1
    rec.label('cfg:s%do%dc%d' % (cfg['simplify'], cfg['optimize'], cfg['cache']))
    if nscribble_w: rec.label('scribbled-writable')
    if nrepeat: rec.label('repeat')
    if ndistinct >= 2: rec.label('distinct-args')


# ---- second sub: long-lived compiled functions behind Basis methods and System.assemble ----------------------

@st.composite
def basis_cases(draw, tier):
    kind = draw(st.sampled_from(['rect', 'tri', 'line', 'hier', 'mixed']))
    btype = draw(st.sampled_from(['std', 'spline', 'discont', 'std']))
    degree = draw(st.integers(1, 3))
    ne = draw(st.integers(1, 3))
    refine = sorted(set(draw(st.lists(st.integers(0, 20), max_size=3))))
    n = draw(st.integers(3, 12 if tier == 'quick' else 40))
    ops = [dict(m=draw(st.sampled_from(['get_dofs', 'get_coefficients', 'get_support', 'get_ndofs', 'assemble'])), i=draw(st.integers(0, 200)), v=draw(st.integers(0, 3))) for _ in range(n)]
    return dict(kind=kind, btype=btype, degree=degree, ne=ne, refine=refine, ops=ops)


def _mk(case):
    from nutils import mesh
    kind, ne = case['kind'], case['ne']
    if kind == 'line':
        topo, geom = mesh.line(ne + 1)
    elif kind in ('rect', 'hier'):
        topo, geom = mesh.rectilinear([ne, ne + 1])
        if kind == 'hier':
            sel = sorted({i % len(topo) for i in case['refine']})
            if sel: topo = topo.refined_by(sel)
    else:
        topo, geom = mesh.unitsquare(ne, 'triangle' if kind == 'tri' else 'mixed')
    btype = case['btype']
    if btype == 'spline' and kind in ('tri', 'mixed'): btype = 'std'
    if kind == 'hier': btype = {'std': 'h-std', 'spline': 'th-spline', 'discont': 'discont'}[btype]
    basis = topo.basis(btype, degree=case['degree'])
    return topo, geom, basis


def check_basis(case, rec):
    from nutils import function, solver
    topo, geom, basis = _mk(case)
    u = function.field('u', basis)
    g = geom if geom.ndim else geom[None]
    res = topo.integral((u ** 2 * basis - basis * g[0]) * function.J(g), degree=2)
    jac = function.derivative(res, 'u')
    ndofs = len(basis)
    nel = len(topo)
    state = {}
    for si, o in enumerate(case['ops']):
        m = o['m']
        topo2, geom2, fresh = _mk(case)
        try:
            _basis_step(case, rec, si, o, m, basis, fresh, nel, ndofs, res, jac, state)
        except Violation:
            raise
        except Exception as e:
            raise Violation('call-raised', f'step {si}: {m}({o["i"]}) raised {type(e).__name__}: {str(e)[:200]} after earlier calls/scribbles', where=m + ':' + type(e).__name__)
    rec.nontrivial = True
    rec.label('basis:' + case['btype'], 'mesh:' + case['kind'])


def _basis_step(case, rec, si, o, m, basis, fresh, nel, ndofs, res, jac, state):
    from nutils import function
    f_res = state.get('f')
    if True:
        if m == 'get_dofs':
            ie = o['i'] % nel
            a, b = basis.get_dofs(ie), fresh.get_dofs(ie)
        elif m == 'get_coefficients':
            ie = o['i'] % nel
            a, b = basis.get_coefficients(ie), fresh.get_coefficients(ie)
        elif m == 'get_support':
            d = o['i'] % ndofs
            a, b = basis.get_support(d), fresh.get_support(d)
        elif m == 'get_ndofs':
            ie = o['i'] % nel
            a, b = basis.get_ndofs(ie), fresh.get_ndofs(ie)
        elif m == 'get_coeffshape':
            ie = o['i'] % nel
            a, b = basis.get_coeffshape(ie), fresh.get_coeffshape(ie)
        else:
            # a compiled residual/jacobian pair reused with changing arguments vs freshly compiled
            arg = numpy.linspace(-1, 1, ndofs) * (1 + o['v'])
            if f_res is None:
                f_res = function.factor(res) if False else None
                from nutils import evaluable
                f_res = state['f'] = evaluable.compile((res.as_evaluable_array, jac.as_evaluable_array))
            from nutils import evaluable
            got = f_res(dict(u=arg.copy()))
            want = evaluable.compile((res.as_evaluable_array, jac.as_evaluable_array))(dict(u=arg.copy()))
            for x, y in zip(got, want):
                if not numpy.array_equal(numpy.asarray(x), numpy.asarray(y)):
                    raise Violation('history-dependence', f'step {si}: reused residual/jacobian function differs from fresh one', where='assemble')
            return
        a, b = numpy.asarray(a), numpy.asarray(b)
        if a.shape != b.shape or not numpy.array_equal(a, b):
            raise Violation('history-dependence', f'step {si}: {m}({o["i"]}) returned {a.tolist()} after earlier calls, fresh basis returns {b.tolist()}', where=m)
        if isinstance(a, numpy.ndarray) and a.ndim and a.flags.writeable:
            a[...] = -7   # scribble: must not influence later calls
            rec.label('scribbled-' + m)


# ---- shapes and loop lengths that depend on an argument -------------------------------------------------------------------

@st.composite
def argshape_cases(draw, tier):
    form = draw(st.sampled_from(['loopsum-index', 'loopsum-index-x', 'loopsum-take', 'insertaxis-sum', 'range-sum', 'loopcat', 'nested-loop', 'insertaxis-view', 'insertaxis-view-x', 'range-view']))
    cfg = dict(simplify=draw(st.booleans()), optimize=draw(st.booleans()), cache=draw(st.sampled_from([True, True, False])))
    steps = [dict(n=draw(st.integers(0, 4)), x=draw(st.sampled_from([-1.5, -.5, .25, 1., 2.])), scribble=draw(st.booleans())) for _ in range(draw(st.integers(2, 8)))]
    return dict(form=form, cfg=cfg, steps=steps, m=draw(st.integers(1, 3)))


def _argshape_build(form, m):
    """returns (evaluable, reference(n, x)): n is an integer argument that only determines a loop length / axis length, x a float vector of length 4"""
    from nutils import evaluable as ev
    n = ev.Maximum(ev.Argument('n', (), int), ev.constant(0))      # lengths must be provably non-negative
    x = ev.Argument('x', (ev.constant(4),), float)
    i = ev.loop_index('i', n)
    fi = ev.astype(i, float)
    if form == 'loopsum-index':          # sum_{i<n} i^2: nothing but the length depends on an argument
        return ev.loop_sum(fi * fi, i), lambda N, X: numpy.float64(sum(k * k for k in range(N)))
    if form == 'loopsum-index-x':
        return ev.loop_sum(ev.prependaxes(fi, x.shape) * x, i), lambda N, X: X * sum(range(N))
    if form == 'loopsum-take':           # sum_{i<n} x[i], n <= 4
        return ev.loop_sum(ev.get(x, 0, i), i), lambda N, X: X[:N].sum()
    if form == 'insertaxis-sum':         # sum over an inserted axis of length n
        return ev.Sum(ev.InsertAxis(x, n)), lambda N, X: X * N
    if form == 'insertaxis-view':        # a computed constant (itself a broadcast view) broadcast along an axis whose length is an argument: the result is a view
        base = ev.InsertAxis(ev.Range(ev.constant(3)) + ev.constant(5), ev.constant(2))
        return ev.InsertAxis(ev.astype(base, float), n), lambda N, X: numpy.broadcast_to((numpy.arange(3.) + 5)[:, None, None], (3, 2, N)).copy()
    if form == 'insertaxis-view-x':
        return ev.InsertAxis(ev.sin(x), n), lambda N, X: numpy.broadcast_to(numpy.sin(X)[:, None], (4, N)).copy()
    if form == 'range-view':
        return ev.astype(ev.Range(n), float) * ev.constant(float(m)), lambda N, X: numpy.arange(N, dtype=float) * m
    if form == 'range-sum':
        return ev.Sum(ev.astype(ev.Range(n), float) * ev.constant(float(m))), lambda N, X: numpy.float64(m * sum(range(N)))
    if form == 'loopcat':                # concatenation of n chunks of length m: the shape of the result depends on n
        body = ev.InsertAxis(fi, ev.constant(m))
        return ev.loop_concatenate(body, i), lambda N, X: numpy.repeat(numpy.arange(N, dtype=float), m)
    if form == 'nested-loop':            # inner loop of constant length inside the loop of length n
        j = ev.loop_index('j', m)
        inner = ev.loop_sum(ev.astype(j, float) + fi, j)
        return ev.loop_sum(inner, i), lambda N, X: numpy.float64(sum(sum(jj + k for jj in range(m)) for k in range(N)))
    raise NotImplementedError(form)


def check_argshape(case, rec):
    from nutils import evaluable as ev
    func, ref = _argshape_build(case['form'], case['m'])
    cfg = case['cfg']
    f = ev.compile(func, _simplify=cfg['simplify'], _optimize=cfg['optimize'], cache_const_intermediates=cfg['cache'])
    base = numpy.array([1., -2., .5, 3.])
    seen = set()
    for si, s in enumerate(case['steps']):
        N = s['n']; X = base * s['x']
        args = dict(n=numpy.array(N), x=X.copy())
        try:
            got = f(args)
        except Exception as e:
            raise Violation('call-raised', f'{case["form"]} cfg {cfg} step {si} n={N}: {type(e).__name__}: {str(e)[:200]}', where='argshape:raised:' + type(e).__name__)
        want = numpy.asarray(ref(N, X), dtype=float)
        got = numpy.asarray(got)
        if got.shape != want.shape or not numpy.allclose(got, want, rtol=1e-13, atol=1e-13):
            fresh = numpy.asarray(ev.compile(func, _simplify=cfg['simplify'], _optimize=cfg['optimize'], cache_const_intermediates=False)(args))
            kind = 'history-dependence' if fresh.shape == want.shape and numpy.allclose(fresh, want, rtol=1e-13, atol=1e-13) else 'wrong-value'
            raise Violation(kind, f'{case["form"]} cfg {cfg} step {si} (n={N}, earlier n={[t["n"] for t in case["steps"][:si]]}): reused function returned {got.tolist()}, a fresh function {fresh.tolist()}, closed form {want.tolist()}', where=f'argshape:{kind}:{case["form"]}')
        if not numpy.array_equal(args['x'], X):
            raise Violation('argument-modified', f'{case["form"]}: x was modified by the call', where='argshape:argument-modified')
        if s['scribble'] and isinstance(got, numpy.ndarray) and got.flags.writeable and got.size:
            got[...] = 97.
        seen.add(N)
    rec.nontrivial = len(seen) >= 2
    rec.label('argshape:' + case['form'], 'argshape-distinct-lengths:%d' % min(len(seen), 3))


# ---- long-lived System objects: assemble_* / solve in any order with changing arguments --------------------------------------------------

@st.composite
def system_cases(draw, tier):
    n = draw(st.integers(1, 3))
    kind = draw(st.sampled_from(['linear-const', 'linear-t', 'linear-t', 'nonlinear']))
    calls = [dict(m=draw(st.sampled_from(['jacobian', 'residual', 'jacobian_residual', 'solve', 'jacobian', 'jacobian_residual'])), t=draw(st.sampled_from([1., 2., 5., 7.])), u=draw(st.sampled_from([0., .5, -1.])))
             for _ in range(draw(st.integers(2, 7)))]
    return dict(n=n, kind=kind, A=[draw(st.sampled_from([-1., -.5, .5, 1., 2.])) for _ in range(n * n)], calls=calls)


def check_system(case, rec):
    """one solver.System object is asked for jacobians, residuals and solutions in a generated order with a changing non-trial argument t:
    every answer equals that of a System built freshly for that call"""
    import warnings, treelog
    from nutils import function, solver
    n = case['n']
    A = numpy.array(case['A']).reshape(n, n); A = A + numpy.diag(abs(A).sum(1) + 1)
    def build():
        u = function.Argument('u', (n,)); t = function.Argument('t', ())
        M = function.Array.cast(A) * (t if case['kind'] != 'linear-const' else 1.)
        res = (M * u[None, :]).sum(1) - (1 + numpy.arange(n)) * (t if case['kind'] == 'linear-const' else 1.)
        if case['kind'] == 'nonlinear': res = res + u ** 3
        return solver.System([res], trial='u')
    def ask(S, c):
        args = dict(t=numpy.array(c['t']), u=numpy.full(n, c['u']))
        argobj, x = S.deconstruct(args, {})
        if c['m'] == 'jacobian': return [S.assemble_jacobian(argobj, x).export('dense')]
        if c['m'] == 'residual': return [numpy.asarray(S.assemble_residual(argobj, x))]
        if c['m'] == 'jacobian_residual':
            j, r = S.assemble_jacobian_residual(argobj, x)
            return [j.export('dense'), numpy.asarray(r)]
        return [numpy.asarray(S.solve(arguments=args, tol=1e-10, maxiter=40)['u'])]
    with warnings.catch_warnings(), treelog.set(treelog.NullLog()), numpy.errstate(all='ignore'):
        warnings.simplefilter('ignore')
        S = build()
        for i, c in enumerate(case['calls']):
            try:
                got = ask(S, c)
            except Exception as e:
                try:
                    ask(build(), c)
                except Exception:
                    rec.label('system:call-raises-on-a-fresh-system-too'); continue
                raise Violation('history-dependence', f'{case["kind"]} call {i} {c} after {case["calls"][:i]}: reused System raised {type(e).__name__}: {str(e)[:200]}, a fresh one does not', where='system:raised')
            want = ask(build(), c)
            for g, w in zip(got, want):
                if g.shape != w.shape or not numpy.allclose(g, w, rtol=1e-12, atol=1e-12):
                    raise Violation('history-dependence', f'{case["kind"]} system, call {i} {c} after {[(q["m"], q["t"]) for q in case["calls"][:i]]}: reused System returned {g.tolist()}, a fresh System {w.tolist()}', where='system:' + c['m'])
    rec.nontrivial = len({c['t'] for c in case['calls']}) >= 2
    rec.label('system:' + case['kind'], *('system-call:' + c['m'] for c in case['calls']))


SUBS = [Sub('history', cases, check, {'quick': 1500, 'thorough': 12000}, weight=3, timeout=25),
        Sub('basis', basis_cases, check_basis, {'quick': 25, 'thorough': 300}, weight=1, timeout=120),
        Sub('argshape', argshape_cases, check_argshape, {'quick': 200, 'thorough': 3000}, weight=1, timeout=60),
        Sub('system', system_cases, check_system, {'quick': 100, 'thorough': 2000}, weight=1, timeout=120)]

def _upstream_c01(case, v):
    prog = case.get('prog', case)
    return genexpr.known_loop(prog)


TRIGGERS = {'upstream-C01-inflate-diagonalize': _upstream_c01}

MANIFEST = dict(
    category='exploration',
    technique='stateful / history-based property testing (Hypothesis): generated call histories on one compiled function with caller-side writes, vs a freshly compiled function and the numpy interpreter',
    text='A generated program is compiled once; a generated history of calls (new, repeated, partially changed arguments; read-only, non-contiguous and list inputs), scribbles over returned '
         'results and mutations of the caller\'s inputs is applied; every call must equal a freshly compiled function bit for bit, arguments stay untouched and earlier results keep their values. '
         'The same is done for Basis.get_dofs/get_coefficients/get_support and a reused residual/Jacobian function against fresh objects. Held on everything explored.',
    note='Trusted: Hypothesis; fresh compilation as reference for the reused function (the numpy interpreter is consulted only for gross errors; value faithfulness is C02).',
)
