"""C16 — Parallel evaluation equals serial evaluation (DESIGN.md §4 C16)."""
import numpy, os, sys, ast, time, signal, warnings, multiprocessing
from hypothesis import strategies as st
from vlib.core import Sub, Violation, Discard
from vlib import genexpr, evharness

PROPERTY = 'C16'
LEVEL = 'exploration'
BUDGET = {'quick': 55, 'thorough': 550}
SHARDS = {'quick': 4, 'thorough': 8}
RULE = ('cases: (loops) G_ev programs with at least one outermost loop (sums and concatenations, shared accumulators via inflate/add, nested inner loops, 1-2 outputs) compiled and evaluated under '
        'parallel.maxprocs(2..6) with a generated perturbation schedule (per claim sleeps of 0-3 ms injected in parallel.range.__next__ before the fork, so children inherit it): result equals the '
        'maxprocs(1) result (exact for int/bool), every iteration is claimed exactly once (claims recorded in shared memory), and the captured generated code satisfies the lock discipline: every '
        'statement inside a parallel.ctxrange loop that touches a variable allocated with parallel.shempty is lexically inside "with lock<k>"; (faults) at the k-th claim made by a child the harness '
        'raises / os._exit()s / SIGKILLs it, or raises in the parent: the call must raise and no child process may survive; (topo) integrate / sample.eval / locate on generated meshes under maxprocs(n) '
        'vs serial. non-trivial: >=2 processes actually claimed iterations and the program has a shared accumulator; faults that actually fired in a child; distinct = case hash')
ASSUMPTIONS = ['interleavings are sampled under harness-injected perturbation, not enumerated; the scheduler-independent part is the structural lock-discipline predicate on the generated code',
               'fork-based parallelism only (Linux)', 'programs whose simplification does not terminate are left to C01']


@st.composite
def loop_cases(draw, tier):
    prog = draw(genexpr.outer_loop_programs(maxnodes=12, maxdepth=4, nouts=2))
    return dict(prog=prog, nprocs=draw(st.integers(2, 6)), sched=[draw(st.sampled_from([0, 1, 1, 2, 3])) for _ in range(7)],
                fault=draw(st.sampled_from([None, None, None, 'raise-child', 'exit-child', 'kill-child', 'raise-parent'])), k=draw(st.integers(0, 3)), optimize=draw(st.booleans()), parent_delay=draw(st.sampled_from([0, 100, 300, 300])))


class Perturb:
    """wraps parallel.range.__next__: records claims in shared memory, sleeps according to the schedule, injects a fault at the k-th claim of a child"""
    def __init__(self, sched, fault, k, parent_delay=0):
        self.parent_delay = parent_delay
        from nutils import parallel
        self.parallel = parallel
        self.sched = sched; self.fault = fault; self.k = k
        self.claims = multiprocessing.RawArray('i', 4096)
        self.pids = multiprocessing.RawArray('i', 4096)
        self.fired = multiprocessing.RawValue('i', 0)
        self.parent = os.getpid()
        self.mine = 0

    def __enter__(self):
        orig = self.orig = self.parallel.range.__next__
        me = self

        def nxt(rng):
            i = orig(rng)
            me.mine += 1
            child = os.getpid() != me.parent
            if i < 4096:
                me.claims[i] += 1
                me.pids[i] = os.getpid()
            s = me.sched[(i * 3 + os.getpid()) % len(me.sched)]
            if not child and me.mine == 1 and me.parent_delay:
                s += me.parent_delay   # give the forked workers time to start, so that claims really interleave
            if s:
                time.sleep(s / 1000.)
            f = me.fault
            if f and me.mine - 1 == me.k:
                if f == 'raise-child' and child:
                    me.fired.value = 1; raise RuntimeError('injected failure in child')
                if f == 'exit-child' and child:
                    me.fired.value = 1; os._exit(3)
                if f == 'kill-child' and child:
                    me.fired.value = 1; os.kill(os.getpid(), signal.SIGKILL)
                if f == 'raise-parent' and not child:
                    me.fired.value = 1; raise RuntimeError('injected failure in parent')
            return i
        self.parallel.range.__next__ = nxt
        return self

    def __exit__(self, *exc):
        self.parallel.range.__next__ = self.orig
        return False


def surviving_children():
    """pids of live (non-zombie) child processes of this process"""
    me = os.getpid()
    out = []
    for d in os.listdir('/proc'):
        if not d.isdigit(): continue
        try:
            stat = open(f'/proc/{d}/stat').read()
        except OSError:
            continue
        rest = stat[stat.rindex(')') + 2:].split()
        if int(rest[1]) == me and rest[0] != 'Z':
            out.append(int(d))
    return out


def _written(stmt, shared):
    """shared arrays that the statement (or any statement nested in it) may write to"""
    out = set()
    for node in ast.walk(stmt):
        if isinstance(node, (ast.Assign, ast.AugAssign)):
            targets = node.targets if isinstance(node, ast.Assign) else [node.target]
            for t in targets:
                base = t
                while isinstance(base, (ast.Subscript, ast.Attribute)): base = base.value
                if isinstance(base, ast.Name) and base.id in shared and not isinstance(t, ast.Name): out.add(base.id)
        if isinstance(node, ast.Call):
            for kw in node.keywords:
                if kw.arg == 'out' and isinstance(kw.value, ast.Name) and kw.value.id in shared: out.add(kw.value.id)
            fn = ast.unparse(node.func)
            if fn in ('numpy.add.at', 'numpy.copyto') and node.args and isinstance(node.args[0], ast.Name) and node.args[0].id in shared: out.add(node.args[0].id)
            if isinstance(node.func, ast.Attribute) and node.func.attr in ('fill', 'itemset', 'sort') and isinstance(node.func.value, ast.Name) and node.func.value.id in shared: out.add(node.func.value.id)
    return out


def lock_discipline(script):
    """returns (description of the first violation of the lock discipline in the generated code or None, number of statements checked).
    Inside a parallel (ctxrange) loop every statement that touches a shared array *which that loop writes to* must hold a lock;
    shared arrays completed by an earlier loop may be read freely."""
    tree = ast.parse(script)
    shared = {}
    for node in ast.walk(tree):
        if isinstance(node, ast.Assign) and isinstance(node.value, ast.Call):
            fn = node.value.func
            if isinstance(fn, ast.Attribute) and fn.attr == 'shempty' and isinstance(node.targets[0], ast.Name):
                shared[node.targets[0].id] = node.lineno
    if not shared:
        return None, 0
    nchecked = 0

    def visit(node, contended, locks_held):
        nonlocal nchecked
        if isinstance(node, ast.With):
            ctx = node.items[0].context_expr
            is_par = isinstance(ctx, ast.Call) and isinstance(ctx.func, ast.Attribute) and ctx.func.attr == 'ctxrange'
            is_lock = isinstance(ctx, ast.Name) and ctx.id.startswith('lock')
            if is_lock and ctx.id in locks_held:
                return f'line {node.lineno}: lock {ctx.id} acquired while already held'
            if is_par:
                contended = contended | _written(node, set(shared))
            for child in node.body:
                r = visit(child, contended, locks_held | ({ctx.id} if is_lock else set()))
                if r: return r
            return None
        if isinstance(node, (ast.For, ast.If, ast.While)):
            if isinstance(node, ast.If) and contended:
                names = {n.id for n in ast.walk(node.test) if isinstance(n, ast.Name)}
                if names & contended and not locks_held:
                    return f'line {node.lineno}: condition reads shared array(s) {sorted(names & contended)} that the parallel loop writes to, without a lock'
            for child in node.body + getattr(node, 'orelse', []):
                r = visit(child, contended, locks_held)
                if r: return r
            return None
        if contended:
            names = {n.id for n in ast.walk(node) if isinstance(n, ast.Name)}
            touched = names & contended
            if touched:
                nchecked += 1
                if not locks_held:
                    return f'line {getattr(node, "lineno", "?")}: statement touches shared array(s) {sorted(touched)} that the parallel loop writes to, without holding a lock: {ast.unparse(node)[:120]}'
        return None

    fn = tree.body[0]
    for stmt in fn.body:
        r = visit(stmt, set(), set())
        if r: return r, nchecked
    return None, nchecked


def check_loops(case, rec):
    from nutils import evaluable, parallel, _util
    prog = case['prog']
    ref, want, args, tols = evharness.reference(prog)
    try:
        outs, built = genexpr.build(prog)
    except Exception as e:
        raise Violation('construct-raised', f'{type(e).__name__}: {e}', where='build:' + type(e).__name__)
    nn = len(prog['nodes'])
    sys.setrecursionlimit(3000)
    evharness.clear_cache(*outs)
    with evharness.RewriteTrace(bound=4000 + 1000 * nn, record=False):
        try:
            for o in outs: o.simplified
        except (evharness.StepBound, RecursionError):
            raise Discard('upstream-C01-nontermination')
        except Exception:
            raise Discard('upstream-C01-simplify-raised')
    target = tuple(outs)
    with warnings.catch_warnings():
        warnings.simplefilter('ignore')
        try:
            serial = evaluable.compile(target, _optimize=case['optimize'])(dict(args))
        except Exception:
            raise Discard('upstream-C02-serial-raised')
        for s, w, t in zip(serial, want, tols):
            if evharness.close(s, w, t) is not None:
                raise Discard('upstream-C02-serial-mismatch')
        scripts = []
        orig_function = _util.function
        def capture(script, globals):
            scripts.append(script); return orig_function(script, globals)
        fault = case['fault']
        with Perturb(case['sched'], fault, case['k'], case.get('parent_delay', 0)) as pt:
            _util.function = capture
            try:
                with parallel.maxprocs(case['nprocs']):
                    try:
                        f = evaluable.compile(target, _optimize=case['optimize'])
                    finally:
                        _util.function = orig_function
                    script = scripts[-1] if scripts else ''
                    if 'ctxrange' not in script:
                        raise Discard('no-parallel-loop-after-simplification')
                    try:
                        got = f(dict(args))
                        raised = None
                    except BaseException as e:
                        if isinstance(e, (KeyboardInterrupt, SystemExit)): raise
                        got = None; raised = e
            finally:
                _util.function = orig_function
        # a killed worker needs a moment to disappear (SIGKILL is asynchronous): only a child that is still running after a generous grace period survived
        for _ in range(300):
            kids = surviving_children()
            if not kids: break
            time.sleep(0.01)
        if kids:
            for k in kids:
                try: os.kill(k, signal.SIGKILL)
                except OSError: pass
            raise Violation('child-survived', f'{len(kids)} child process(es) still alive after the call returned/raised (fault={fault})', where='survivor:' + str(fault))
        # reap zombies left by the harness' own kills
        try:
            while True:
                pid, _ = os.waitpid(-1, os.WNOHANG)
                if pid == 0: break
        except ChildProcessError:
            pass
        fired = bool(pt.fired.value)
        if fault and fired:
            if raised is None:
                raise Violation('fault-swallowed', f'fault {fault} fired at claim {case["k"]} but the call returned {[numpy.asarray(g).tolist() for g in got]}', where='fault:' + fault)
            rec.label('fault-fired:' + fault)
            rec.nontrivial = fault != 'raise-parent'
            return
        if raised is not None:
            raise Violation('parallel-raised', f'{type(raised).__name__}: {str(raised)[:300]} (serial evaluation succeeds; nprocs={case["nprocs"]})\n{script[:2000]}', where='parallel-raised:' + type(raised).__name__)
        for k, (g, s) in enumerate(zip(got, serial)):
            g = numpy.asarray(g); s = numpy.asarray(s)
            if g.shape != s.shape or g.dtype != s.dtype:
                raise Violation('parallel-mismatch', f'output {k}: parallel {g.shape}/{g.dtype} vs serial {s.shape}/{s.dtype}', where='mismatch:meta')
            if s.dtype.kind in 'biu':
                ok = numpy.array_equal(g, s)
            else:
                ok = numpy.allclose(g, s, rtol=1e-12, atol=1e-12 * (1 + (abs(s).max() if s.size else 0)))
            if not ok:
                raise Violation('parallel-mismatch', f'output {k}: parallel {g.tolist()} != serial {s.tolist()} (nprocs={case["nprocs"]}, sched={case["sched"]})\n{script[:2500]}', where='mismatch:value')
        # each iteration claimed exactly once: count claims per outer loop length
        claims = numpy.frombuffer(pt.claims, dtype=numpy.int32)
        nz = claims[claims != 0]
        nloops_par = script.count('ctxrange')
        if nz.size and nz.max() > nloops_par:
            raise Violation('duplicate-claim', f'an iteration index was claimed {nz.max()} times with {nloops_par} parallel loop(s): {claims[:16].tolist()}', where='claims')
        pids = {p for p, c in zip(numpy.frombuffer(pt.pids, dtype=numpy.int32), claims) if c}
        bad, nchecked = lock_discipline(script)
        if bad:
            raise Violation('lock-discipline', f'{bad}\n{script[:3000]}', where='lock-discipline')
        rec.count('shared_statements_checked', nchecked)
        rec.nontrivial = len(pids) >= 2 and 'shempty' in script
        if len(pids) >= 2: rec.label('multi-process-claims')
        if 'shempty' in script: rec.label('shared-accumulator')
        rec.label('nprocs:%d' % case['nprocs'])


# ---- topology-level ----------------------------------------------------------------------------------------

@st.composite
def topo_cases(draw, tier):
    from vlib import gentopo
    r = draw(gentopo.recipes(kinds=['line', 'rect', 'tri', 'mixed', 'multipatch'], maxops=2, ops=('refine', 'refined_by', 'trim'), maxn=3))
    return dict(mesh=r, nprocs=draw(st.integers(2, 5)), what=draw(st.sampled_from(['integrate', 'integrate', 'eval', 'locate', 'locate', 'elementwise'])), sched=[draw(st.sampled_from([0, 0, 1, 2])) for _ in range(5)],
                degree=draw(st.integers(1, 3)), sel=[draw(st.integers(0, 100)) for _ in range(6)], parent_delay=draw(st.sampled_from([0, 100, 300])),
                missing=[draw(st.integers(0, 5)) for _ in range(draw(st.sampled_from([0, 0, 1, 1, 2])))], skip_missing=draw(st.booleans()))


def check_topo(case, rec):
    from nutils import function, parallel, topology
    from vlib import gentopo
    with warnings.catch_warnings():
        warnings.simplefilter('ignore')
        topo0, topo, x, applied = gentopo.build(case['mesh'])
        if len(topo) < 2:
            raise Discard('single-element')
        geom, _ = gentopo.geometry(x, case['mesh']['geom'], topo0.ndims)
        try:
            basis = topo.basis('std', degree=1) if topo.ndims == topo0.ndims else None
        except Exception:
            basis = None
        f = [function.J(geom), (geom * geom).sum(-1) * function.J(geom)] + ([basis * function.J(geom), basis[:, None] * basis[None, :] * function.J(geom)] if basis is not None else [])
        what = case['what']
        def run():
            if what == 'integrate': return [numpy.asarray(a.export('dense') if hasattr(a, 'export') else a) for a in topo.integrate(f, degree=case['degree'] * 2)]
            if what == 'eval': return [numpy.asarray(a) for a in topo.sample('gauss', case['degree']).eval([geom, function.J(geom)])]
            if what == 'elementwise': return [numpy.asarray(topo.integrate_elementwise(function.J(geom), degree=2))]
            smp = topo.sample('gauss', 1)
            X = numpy.asarray(smp.eval(geom))
            sel = sorted({s % len(X) for s in case['sel']})
            targets = X[sel].copy()
            for m in case.get('missing', []):
                targets[m % len(targets)] += 1e3      # a target far outside the mesh: refused with LocateError, or left out with skip_missing
            try:
                loc = topo.locate(geom, targets, tol=1e-10, eps=1e-12, skip_missing=case.get('skip_missing', False))
            except topology.LocateError:
                return [numpy.array([-12345.])]      # the documented refusal is an outcome like any other: it must be the same with and without workers
            return [numpy.asarray(loc.eval(geom))]
        serial = run()
        with Perturb(case['sched'], None, 0, case.get('parent_delay', 0)) as pt:
            with parallel.maxprocs(case['nprocs']):
                try:
                    par = run()
                except Exception as e:
                    raise Violation('parallel-raised', f'{what} under maxprocs({case["nprocs"]}): {type(e).__name__}: {str(e)[:300]} (ops {applied})', where='topo-raised:' + type(e).__name__)
        kids = surviving_children()
        if kids:
            for k in kids:
                try: os.kill(k, signal.SIGKILL)
                except OSError: pass
            raise Violation('child-survived', f'{len(kids)} children alive after {what}', where='survivor:topo')
        for a, b in zip(par, serial):
            if a.shape != b.shape or not numpy.allclose(a, b, rtol=1e-12, atol=1e-13 * (1 + (abs(b).max() if b.size else 0))):
                raise Violation('parallel-mismatch', f'{what} under maxprocs({case["nprocs"]}) differs from serial by {abs(a - b).max() if a.shape == b.shape else "shape"} (mesh {case["mesh"]["kind"]}, ops {applied})', where='topo-mismatch:' + what)
        claims = numpy.frombuffer(pt.claims, dtype=numpy.int32)
        pids = {p for p, c in zip(numpy.frombuffer(pt.pids, dtype=numpy.int32), claims) if c}
        rec.nontrivial = len(pids) >= 2
        rec.label('what:' + what, 'mesh:' + case['mesh']['kind'])
        if what == 'locate' and case.get('missing'): rec.label('locate-missing-target:skip=%s' % case.get('skip_missing', False))
        if len(pids) >= 2: rec.label('multi-process-claims')


SUBS = [Sub('loops', loop_cases, check_loops, {'quick': 120, 'thorough': 2500}, weight=3, deterministic=False, timeout=120),
        Sub('topo', topo_cases, check_topo, {'quick': 25, 'thorough': 500}, weight=1, deterministic=False, timeout=180)]

TRIGGERS = {}

MANIFEST = dict(
    category='exploration',
    technique='property-based differential testing (Hypothesis) with harness-owned schedule perturbation and fault injection: generated looping programs under maxprocs(n) vs maxprocs(1); claim accounting in shared memory; structural lock-discipline predicate on the captured generated code; child-process accounting after injected failures',
    text='Generated programs with outer loops and generated mesh computations are evaluated with 2-6 worker processes under a generated per-claim delay schedule and compared with the single-process result; iteration claims are recorded in shared memory and must be unique; '
         'the generated code must hold a lock around every access to shared arrays inside the parallel loop; injected worker failures (exception, exit, SIGKILL) and parent failures must make the call raise and leave no child behind. Held on everything explored.',
    note='Interleavings are sampled, not enumerated. Trusted: Hypothesis; the wrapper around parallel.range.__next__ (installed before the fork); /proc for child accounting.',
)
