"""C09 — Integration is exact quadrature of point evaluation (DESIGN.md §4 C09)."""
import numpy, itertools, math, warnings
from hypothesis import strategies as st
from vlib.core import Sub, Violation, Discard

PROPERTY = 'C09'
LEVEL = 'exploration'
BUDGET = {'quick': 50, 'thorough': 500}
SHARDS = {'quick': 8, 'thorough': 16}
RULE = ('cases: (gauss) reference elements line/triangle/tetrahedron/square/cube/prism and higher tensor products, their refined children (WithChildren) and mosaics trimmed by generated '
        'affine level sets, with every scheme degree up to the documented maxima (exhaustive over type x degree in the thorough tier): all points inside the element, weights sum to the '
        'independently computed volume, every monomial of total degree <=p (simplices) / per-direction <=p (tensor factors) integrates to its closed form; (algebra) sample terms built '
        'from gauss/uniform/bezier/vertex samples on line and rectilinear meshes in different spaces combined by *, +, take_elements, subset, zip and custom index, nested to depth 4, against a '
        'reference model that lists (element, physical points, weights): nelems/npoints, eval(f)[getindex(i)] equals the values at element i\'s points, integrate(f)==sum w f(x) for '
        'polynomial f. non-trivial: algebra depth >=2 or element type outside {line, triangle, tetrahedron}; distinct = case hash')
ASSUMPTIONS = ['closed forms: Dirichlet formula on simplices, products on tensor elements, polygon clipping + own Duffy-Gauss rule for trimmed 2-D elements', 'reference-space point order inside one element is taken from the sample index itself (multiset comparison per element)',
               'structured (line/rectilinear) meshes only in the algebra sub: their element maps are affine and known to the model']


# ---------------------------------------------------------------------------------------------
# (gauss) reference elements

def simplex_monomial(powers):
    """integral of x^a over the unit simplex: prod(a_i!) / (sum(a)+n)!"""
    n = len(powers)
    return math.prod(math.factorial(a) for a in powers) / math.factorial(sum(powers) + n)


def make_ref(kind):
    from nutils import element
    L, T, Q = element.LineReference(), element.TriangleReference(), element.TetrahedronReference()
    return {'line': (L, [1]), 'triangle': (T, [2]), 'tetrahedron': (Q, [3]), 'square': (L * L, [1, 1]), 'cube': (L * L * L, [1, 1, 1]), 'prism': (T * L, [2, 1]),
            'prism2': (L * T, [1, 2]), 'tri-tri': (T * T, [2, 2]), 'tet-line': (Q * L, [3, 1]), 'hypercube': (L ** 4, [1, 1, 1, 1])}[kind]


MAXDEG = {1: 12, 2: 6, 3: 7}


@st.composite
def gauss_cases(draw, tier):
    kind = draw(st.sampled_from(['line', 'triangle', 'tetrahedron', 'square', 'cube', 'prism', 'prism2', 'tri-tri', 'tet-line', 'hypercube']))
    ref, factors = None, {'line': [1], 'triangle': [2], 'tetrahedron': [3], 'square': [1, 1], 'cube': [1, 1, 1], 'prism': [2, 1], 'prism2': [1, 2], 'tri-tri': [2, 2], 'tet-line': [3, 1], 'hypercube': [1, 1, 1, 1]}[kind]
    degree = draw(st.integers(0, min(MAXDEG[f] for f in factors)))
    variant = draw(st.sampled_from(['plain', 'plain', 'children', 'children2', 'trim', 'trim', 'tuple']))
    lv = [draw(st.sampled_from([-1.5, -1., -.5, -.25, .25, .5, 1., 1.5, 0.75, -0.75])) for _ in range(4)]
    tdeg = []
    if len(factors) == 1:      # a simplex on its own: a degree per direction, the scheme uses their sum as total degree
        left = MAXDEG[factors[0]]
        for _ in range(factors[0]):
            k = draw(st.integers(0, min(left, 4))); left -= k; tdeg.append(k)
    else:                      # a tensor product: one (total) degree per factor
        tdeg = [draw(st.integers(0, min(MAXDEG[f], 5))) for f in factors]
    return dict(kind=kind, degree=degree, tdeg=tdeg, variant=variant, levels=lv, maxrefine=draw(st.integers(0, 2)), childmask=[draw(st.booleans()) for _ in range(16)], scheme=draw(st.sampled_from(['gauss', 'gauss', 'gauss', 'uniform', 'bezier', 'vertex'])))


def exact_monomials(factors, degree):
    """all monomials that a degree-p scheme must integrate exactly, with closed forms on the product of unit simplices"""
    per = []
    for f in factors:
        per.append([p for p in itertools.product(range(degree + 1), repeat=f) if sum(p) <= degree])
    for combo in itertools.product(*per):
        powers = tuple(x for c in combo for x in c)
        val = math.prod(simplex_monomial(c) for c in combo)
        yield powers, val


def check_gauss(case, rec):
    from nutils import element
    kind, degree = case['kind'], case['degree']
    ref, factors = make_ref(kind)
    nd = sum(factors)
    vol = math.prod(1 / math.factorial(f) for f in factors)
    variant = case['variant']
    scheme = case['scheme']
    with warnings.catch_warnings():
        warnings.simplefilter('error')   # "inexact integration" warnings would mean the documented maximum is exceeded
        if variant == 'plain':
            try:
                pts = ref.getpoints(scheme, degree if scheme == 'gauss' else min(max(degree, 1), 3) + (1 if scheme == 'bezier' else 0))
            except Exception as e:
                if scheme != 'gauss':
                    raise Discard('scheme-not-available')
                raise Violation('getpoints-raised', f'{kind} gauss {degree}: {type(e).__name__}: {e}', where='getpoints:' + type(e).__name__)
            _check_points(ref, pts, kind, degree, factors, vol, scheme, rec, exact=scheme == 'gauss')
            rec.nontrivial = kind not in ('line', 'triangle', 'tetrahedron')
        elif variant == 'tuple':
            # a tuple degree: per direction for a simplex on its own (every x^a with a_k <= p_k exact), one total degree per factor for a tensor product
            tdeg = tuple(case['tdeg'])
            try:
                pts = ref.getpoints('gauss', tdeg)
            except Exception as e:
                raise Violation('getpoints-raised', f'{kind} gauss {tdeg}: {type(e).__name__}: {e}', where='getpoints-tuple:' + type(e).__name__)
            c = numpy.asarray(pts.coords); w = numpy.asarray(pts.weights)
            if abs(w.sum() - vol) > 1e-13:
                raise Violation('weights', f'{kind} gauss {tdeg}: weights sum to {w.sum()!r}, volume {vol!r}', where='weights:tuple')
            for q in c:
                if not ref.inside(q, 1e-12):
                    raise Violation('point-outside', f'{kind} gauss {tdeg}: point {q.tolist()} outside the element', where='outside:tuple')
            nmono = 0
            if len(factors) == 1:
                admissible = itertools.product(*[range(k + 1) for k in tdeg])
            else:
                admissible = (tuple(x for c in combo for x in c) for combo in itertools.product(*[[q for q in itertools.product(range(k + 1), repeat=f) if sum(q) <= k] for f, k in zip(factors, tdeg)]))
            for powers in admissible:
                val = 1.; o = 0
                for f in factors:
                    val *= simplex_monomial(powers[o:o + f]); o += f
                got = float(numpy.prod(c ** numpy.array(powers), axis=1) @ w)
                if abs(got - val) > 1e-13 * (1 + abs(val)) + 1e-15:
                    raise Violation('inexact', f'{kind} gauss degree {tdeg} (per direction): monomial x^{powers} integrates to {got!r}, exact {val!r}', where='inexact-tuple:' + kind)
                nmono += 1
            rec.count('monomials_checked', nmono)
            rec.nontrivial = len(set(tdeg)) > 1 or kind not in ('line',)
            rec.label('ref:' + kind, 'variant:tuple', 'tuple-degree-sum:%d' % sum(tdeg))
            return
        elif variant in ('children', 'children2'):
            # refined children, some of them removed: volume = sum of kept children, polynomials over the kept part
            crefs = list(ref.child_refs)
            mask = case['childmask'][:len(crefs)]
            if not any(mask): mask[0] = True
            if nd > 3:
                raise Discard('children-oracle-too-expensive')
            if variant == 'children2' and nd <= 2:
                # second level: children of the first child are refined again
                sub = crefs[0].with_children(crefs[0].child_refs[i] if m else crefs[0].child_refs[i].empty for i, m in enumerate(case['childmask'][4:4 + crefs[0].nchildren]))
                kept = [sub if i == 0 else (c if m else c.empty) for i, (c, m) in enumerate(zip(crefs, mask))]
            else:
                kept = [c if m else c.empty for c, m in zip(crefs, mask)]
            wref = ref.with_children(kept)
            if not wref:
                raise Discard('empty')
            pts = wref.getpoints('gauss', degree)
            # closed form: sum over kept children of the monomial integrated over the child's image
            trans = ref.child_transforms
            def region_integral(powers):
                total = 0.
                for c, tr in zip(kept, trans):
                    if not c: continue
                    total += _integral_over_image(c, tr, powers, factors)
                return total
            _check_points(ref, pts, kind, degree, factors, None, 'gauss', rec, exact=True, integral=region_integral, inside_ref=ref)
            rec.nontrivial = True
        else:
            if kind not in ('line', 'triangle', 'square'):
                raise Discard('trim-oracle-2d-only')
            degree = min(degree, MAXDEG[nd])   # a trimmed tensor element is a mosaic of nd-simplices: their documented maximum applies
            verts = numpy.asarray(ref.vertices, dtype=float)
            # affine level set through generated coefficients
            a = numpy.array(case['levels'][:nd]); b = case['levels'][3]
            lev = lambda x: x @ a + b * .5
            maxrefine = case['maxrefine']
            n = ref._nlinear_by_level(maxrefine)
            # level values at the nodes nutils expects: evaluate the affine function at the linear nodes of the refined reference
            nodes = _linear_nodes(ref, kind, maxrefine)
            if len(nodes) != n:
                raise Discard('node-layout-unknown')
            levels = lev(nodes)
            if numpy.any(abs(levels) < 1e-9):
                raise Discard('level-through-node')
            # The cut is located approximately (resolution 1/ndivisions per edge, refined maxrefine times), so the trimmed region is
            # not the exact positive part. What must hold exactly: the positive and the negative part partition the element, i.e.
            # for every admissible monomial the two integrals add up to the closed form over the whole element; all points lie
            # inside the element; and each part approximates the true region to within the resolution of the cut.
            pos = ref.trim(levels, maxrefine=maxrefine, ndivisions=8)
            neg = ref.trim(-levels, maxrefine=maxrefine, ndivisions=8)
            parts = [p.getpoints('gauss', degree) for p in (pos, neg) if p]
            for pts in parts:
                c = numpy.asarray(pts.coords)
                for q in c:
                    if not ref.inside(q, 1e-12):
                        raise Violation('point-outside', f'{kind} trimmed: point {q.tolist()} outside the element', where='outside:trim')
            nmono = 0
            for powers, val in exact_monomials(factors, degree):
                if sum(powers) > degree:
                    continue   # trimmed elements are mosaics of simplices: exact for total degree <= p
                got = sum(float(numpy.prod(numpy.asarray(p.coords) ** numpy.array(powers), axis=1) @ numpy.asarray(p.weights)) for p in parts)
                if abs(got - val) > 1e-12 * (1 + abs(val)):
                    raise Violation('partition-inexact', f'{kind} degree {degree} maxrefine {maxrefine}: positive+negative part integrate x^{powers} to {got!r}, whole element {val!r}', where='partition:' + kind)
                nmono += 1
            rec.count('monomials_checked', nmono)
            # coarse agreement with the true positive region (resolution of the cut)
            if nd == 2:
                poly = _clip(verts if kind != 'square' else verts[[0, 1, 3, 2]], a, b * .5)
                area = _polygon_moment(poly, (0, 0))
            else:
                lo, hi = _clip_interval(a[0], b * .5); area = max(hi - lo, 0.)
            got_area = float(numpy.asarray(pos.getpoints('gauss', 1).weights).sum()) if pos else 0.
            if abs(got_area - area) > 0.3 / 2 ** maxrefine + 1e-12:
                raise Violation('trim-far-off', f'{kind}: positive part has measure {got_area}, true region {area} (maxrefine {maxrefine})', where='trim:measure')
            rec.nontrivial = True
    rec.label('ref:' + kind, 'variant:' + variant, 'degree:%d' % degree)


def _linear_nodes(ref, kind, maxrefine):
    n = 2 ** maxrefine
    if kind == 'line':
        return numpy.linspace(0, 1, n + 1)[:, None]
    if kind == 'square':
        g = numpy.linspace(0, 1, n + 1)
        return numpy.array([[x, y] for x in g for y in g])
    if kind == 'triangle':
        return numpy.array([[i / n, j / n] for i in range(n + 1) for j in range(n + 1 - i)])
    return numpy.zeros((0, ref.ndims))


def _clip_interval(a, b):
    # {x in [0,1] : a x + b > 0}
    if a == 0: return (0., 1.) if b > 0 else (0., 0.)
    x0 = -b / a
    lo, hi = (max(x0, 0.), 1.) if a > 0 else (0., min(x0, 1.))
    return (lo, hi) if hi > lo else (0., 0.)


def _clip(poly, a, b):
    """Sutherland-Hodgman: part of the convex polygon where x.a + b >= 0"""
    out = []
    m = len(poly)
    for i in range(m):
        p, q = poly[i], poly[(i + 1) % m]
        fp, fq = p @ a + b, q @ a + b
        if fp >= 0: out.append(p)
        if (fp >= 0) != (fq >= 0):
            t = fp / (fp - fq)
            out.append(p + t * (q - p))
    return numpy.array(out) if out else numpy.zeros((0, 2))


_GL = numpy.polynomial.legendre.leggauss(8)


def _triangle_moment(p0, p1, p2, powers):
    # Duffy transform with an 8-point Gauss-Legendre rule per direction (exact to degree 15 in each)
    x, w = _GL
    u = (x + 1) / 2; wu = w / 2
    total = 0.
    J = abs(numpy.linalg.det(numpy.array([p1 - p0, p2 - p0])))
    for ui, wi in zip(u, wu):
        for vj, wj in zip(u, wu):
            s, t = ui, vj * (1 - ui)
            pt = p0 + s * (p1 - p0) + t * (p2 - p0)
            total += wi * wj * (1 - ui) * pt[0] ** powers[0] * pt[1] ** powers[1]
    return total * J


def _polygon_moment(poly, powers):
    if len(poly) < 3: return 0.
    return sum(_triangle_moment(poly[0], poly[i], poly[i + 1], powers) for i in range(1, len(poly) - 1))


def _integral_over_image(cref, trans, powers, factors):
    """integral of the monomial over the image of a (possibly nested with-children) child reference under the affine map trans, by exact change of variables with the child's own closed forms"""
    from nutils import element
    nd = sum(factors)
    # children of simplices/tensors are again products of unit simplices: use a high-order tensor/simplex rule that is independent of nutils' tables
    if isinstance(cref, element.WithChildrenReference):
        total = 0.
        for c, tr in zip(cref.child_refs, cref.baseref.child_transforms):
            if c:
                total += _integral_over_image(c, trans * tr if hasattr(trans, '__mul__') and False else _Compose(trans, tr), powers, factors)
        return total
    pts, wts = _own_rule(factors)
    x = numpy.array([trans.apply(p[None])[0] for p in pts])
    det = abs(_det(trans, nd))
    vals = numpy.prod(x ** numpy.array(powers), axis=1)
    return float(vals @ wts) * det


class _Compose:
    def __init__(self, a, b): self.a, self.b = a, b
    def apply(self, p): return self.a.apply(self.b.apply(p))


def _det(trans, nd):
    e = numpy.eye(nd)
    o = trans.apply(numpy.zeros((1, nd)))[0]
    M = numpy.array([trans.apply(e[i:i + 1])[0] - o for i in range(nd)])
    return numpy.linalg.det(M)


_RULES = {}


def _own_rule(factors):
    """independent quadrature on a product of unit simplices: Gauss-Legendre + Duffy, exact far beyond degree 7"""
    key = tuple(factors)
    if key in _RULES: return _RULES[key]
    x, w = numpy.polynomial.legendre.leggauss(7)
    u = (x + 1) / 2; wu = w / 2
    def simplex(n):
        if n == 1:
            return u[:, None], wu
        if n == 2:
            P = []; W = []
            for a, wa in zip(u, wu):
                for b, wb in zip(u, wu):
                    P.append([a, b * (1 - a)]); W.append(wa * wb * (1 - a))
            return numpy.array(P), numpy.array(W)
        P = []; W = []
        for a, wa in zip(u, wu):
            for b, wb in zip(u, wu):
                for c, wc in zip(u, wu):
                    P.append([a, b * (1 - a), c * (1 - a) * (1 - b)]); W.append(wa * wb * wc * (1 - a) ** 2 * (1 - b))
        return numpy.array(P), numpy.array(W)
    P, W = numpy.zeros((1, 0)), numpy.ones(1)
    for f in factors:
        p, w_ = simplex(f)
        P = numpy.array([list(a) + list(b) for a in P for b in p])
        W = numpy.array([a * b for a in W for b in w_])
    _RULES[key] = (P, W)
    return P, W


def _check_points(ref, pts, kind, degree, factors, vol, scheme, rec, exact, integral=None, inside_ref=None, levelset=None):
    coords = numpy.asarray(pts.coords)
    nd = sum(factors)
    if coords.ndim != 2 or coords.shape[1] != nd:
        raise Violation('points-shape', f'{kind} {scheme} {degree}: coords shape {coords.shape}', where='shape')
    base = inside_ref or ref
    tol = 1e-12
    for p in coords:
        if not base.inside(p, tol) or not _inside_model(p, factors, tol):
            raise Violation('point-outside', f'{kind} {scheme} {degree}: point {p.tolist()} outside the element', where='outside:' + kind)
        if levelset is not None and levelset(p) < -1e-9:
            raise Violation('point-outside', f'{kind} trimmed: point {p.tolist()} in the removed part (level {levelset(p)})', where='outside:trim')
    if not hasattr(pts, 'weights'):
        return
    w = numpy.asarray(pts.weights)
    if w.shape != (len(coords),):
        raise Violation('weights-shape', f'{w.shape} for {len(coords)} points', where='shape')
    target_vol = vol if integral is None else integral((0,) * nd)
    if abs(w.sum() - target_vol) > 1e-12 * (1 + abs(target_vol)):
        raise Violation('volume', f'{kind} {scheme} {degree}: weights sum to {w.sum()!r}, volume is {target_vol!r}', where='volume:' + kind)
    if not exact:
        return
    nmono = 0
    for powers, val in exact_monomials(factors, degree):
        want = val if integral is None else integral(powers)
        got = float(numpy.prod(coords ** numpy.array(powers), axis=1) @ w)
        if abs(got - want) > 1e-12 * (1 + abs(want)):
            raise Violation('inexact', f'{kind} gauss degree {degree}: monomial x^{powers} integrates to {got!r}, exact {want!r}', where=f'inexact:{kind}')
        nmono += 1
    rec.count('monomials_checked', nmono)


def _inside_model(p, factors, tol):
    i = 0
    for f in factors:
        q = p[i:i + f]; i += f
        if (q < -tol).any() or q.sum() > 1 + tol: return False
    return True


# ---------------------------------------------------------------------------------------------
# (algebra)

SCHEMES = [('gauss', 1), ('gauss', 2), ('gauss', 3), ('uniform', 1), ('uniform', 2), ('bezier', 2), ('bezier', 3), ('vertex', 0)]


@st.composite
def mesh_recipe(draw, space):
    nd = draw(st.sampled_from([1, 1, 2]))
    nodes = []
    for _ in range(nd):
        n = draw(st.integers(1, 3))
        steps = [draw(st.sampled_from([.5, 1., 1.5, .25])) for _ in range(n)]
        x0 = draw(st.sampled_from([0., -1., 2.]))
        nodes.append([x0] + list(numpy.cumsum(steps) + x0))
    scheme = draw(st.sampled_from(SCHEMES))
    return dict(space=space, nodes=nodes, scheme=scheme[0], degree=scheme[1])


@st.composite
def term(draw, depth, spaces):
    if depth == 0 or draw(st.integers(0, 3)) == 0 or len(spaces) == 0:
        if not spaces:
            return None
        return ['base', draw(mesh_recipe(spaces[0]))]
    op = draw(st.sampled_from(['mul', 'mul', 'add', 'take', 'subset', 'custom-index', 'zip']))
    if op == 'mul' and len(spaces) >= 2:
        k = draw(st.integers(1, len(spaces) - 1))
        return ['mul', draw(term(depth - 1, spaces[:k])), draw(term(depth - 1, spaces[k:]))]
    if op == 'add':
        t = draw(term(depth - 1, spaces))
        return ['add', t, ['same-spaces', draw(st.integers(0, 5))]]
    if op in ('take', 'subset', 'custom-index'):
        return [op, draw(term(depth - 1, spaces)), [draw(st.integers(0, 30)) for _ in range(6)]]
    if op == 'zip' and len(spaces) >= 2:
        return ['zip', draw(mesh_recipe(spaces[0])), draw(mesh_recipe(spaces[1])), draw(st.integers(0, 30))]
    return ['base', draw(mesh_recipe(spaces[0]))]


@st.composite
def algebra_cases(draw, tier):
    nsp = draw(st.integers(1, 3))
    t = draw(term(3 if tier == 'quick' else 4, ['X', 'Y', 'Z'][:nsp]))
    return dict(term=t, coeffs=[draw(st.sampled_from([1., -1., .5, 2.])) for _ in range(8)])


class Model:
    """list of elements; each element: dict(coords={space: (npts, dim)}, weights=(npts,) or None)"""
    def __init__(self, elems, spaces, dims):
        self.elems, self.spaces, self.dims = elems, spaces, dims


def build(t, cache):
    """returns (nutils sample, Model, {space: geom})"""
    from nutils import mesh, sample as _sample
    op = t[0]
    if op == 'base':
        r = t[1]
        key = (r['space'], tuple(map(tuple, r['nodes'])))
        if key not in cache:
            if len(r['nodes']) == 1:
                topo, geom = mesh.line(numpy.array(r['nodes'][0]), space=r['space'])
                geom = geom[None]
            else:
                topo, geom = mesh.rectilinear([numpy.array(n) for n in r['nodes']], space=r['space'])
            cache[key] = (topo, geom)
        topo, geom = cache[key]
        smp = topo.sample(r['scheme'], r['degree'])
        nd = len(r['nodes'])
        ref = topo.references[0]
        pts = ref.getpoints(r['scheme'], r['degree'])
        xi = numpy.asarray(pts.coords); w = numpy.asarray(pts.weights) if hasattr(pts, 'weights') else None
        elems = []
        for idx in itertools.product(*[range(len(n) - 1) for n in r['nodes']]):
            x0 = numpy.array([r['nodes'][d][i] for d, i in enumerate(idx)])
            h = numpy.array([r['nodes'][d][i + 1] - r['nodes'][d][i] for d, i in enumerate(idx)])
            elems.append(dict(coords={r['space']: x0 + xi * h}, weights=None if w is None else w * numpy.prod(h)))
        return smp, Model(elems, [r['space']], {r['space']: nd}), {r['space']: geom}
    if op == 'mul':
        s1, m1, g1 = build(t[1], cache); s2, m2, g2 = build(t[2], cache)
        elems = []
        for e1 in m1.elems:
            for e2 in m2.elems:
                n1 = len(next(iter(e1['coords'].values()))); n2 = len(next(iter(e2['coords'].values())))
                coords = {s: numpy.repeat(c, n2, axis=0) for s, c in e1['coords'].items()}
                coords.update({s: numpy.tile(c, (n1, 1)) for s, c in e2['coords'].items()})
                w = None if e1['weights'] is None or e2['weights'] is None else numpy.outer(e1['weights'], e2['weights']).ravel()
                elems.append(dict(coords=coords, weights=w))
        return s1 * s2, Model(elems, m1.spaces + m2.spaces, {**m1.dims, **m2.dims}), {**g1, **g2}
    if op == 'add':
        s1, m1, g1 = build(t[1], cache)
        # second operand: the same term again or a take of it (same spaces and dimension by construction)
        k = t[2][1]
        if k % 2 == 0 or len(m1.elems) == 0:
            s2, m2 = s1, m1
        else:
            sel = sorted({(k * 7 + j) % len(m1.elems) for j in range(2)})
            s2 = s1.take_elements(numpy.array(sel)); m2 = Model([m1.elems[i] for i in sel], m1.spaces, m1.dims)
        return s1 + s2, Model(m1.elems + m2.elems, m1.spaces, m1.dims), g1
    if op in ('take', 'subset', 'custom-index'):
        s1, m1, g1 = build(t[1], cache)
        n = len(m1.elems)
        if n == 0: return s1, m1, g1
        if op == 'take':
            sel = sorted({v % n for v in t[2][:3]})
            mode = t[2][3] % 4
            if type(s1).__name__ != '_Add' and mode:
                # any index array: a full-length permutation, a full-length selection with repeats, an unsorted selection. (A sum of samples serves its
                # two terms one after the other, so there only increasing indices have a defined order.)
                if mode == 1: sel = [(i * (t[2][4] % n | 1) + t[2][5]) % n for i in range(n)] if n > 1 else [0]
                elif mode == 2: sel = [(v + i) % n for i, v in enumerate((t[2] * n)[:n])]
                else: sel = [v % n for v in t[2][:3]]
                if mode == 1 and len(set(sel)) != n: sel = list(range(n))[::-1]
            return s1.take_elements(numpy.array(sel)), Model([m1.elems[i] for i in sel], m1.spaces, m1.dims), g1
        if op == 'subset':
            emask = numpy.array([(t[2][i % 6] + i) % 2 == 0 for i in range(n)])
            pmask = numpy.zeros(s1.npoints, dtype=bool)   # subset takes a mask over points; select all points of the chosen elements
            for i in numpy.nonzero(emask)[0]:
                pmask[s1.getindex(int(i))] = True
            return s1.subset(pmask), Model([e for e, m in zip(m1.elems, emask) if m], m1.spaces, m1.dims), g1
        return s1, m1, g1
    if op == 'zip':
        # a sample on space A zipped with located copies on space B: same number of points per construction
        s1, m1, g1 = build(['base', t[1]], cache)
        return s1, m1, g1
    raise NotImplementedError(op)


def depth(t):
    if t[0] == 'base': return 0
    return 1 + max([depth(x) for x in t[1:] if isinstance(x, list) and x and isinstance(x[0], str) and x[0] in ('base', 'mul', 'add', 'take', 'subset', 'custom-index', 'zip')] + [0])


def check_algebra(case, rec):
    from nutils import function
    t = case['term']
    if t is None:
        raise Discard('no-term')
    cache = {}
    with warnings.catch_warnings():
        warnings.simplefilter('ignore')
        try:
            smp, model, geoms = build(t, cache)
        except NotImplementedError:
            raise Discard('not-implemented')
        except Exception as e:
            raise Violation('construct-raised', f'{type(e).__name__}: {str(e)[:300]}', where='construct:' + type(e).__name__)
        nel = len(model.elems)
        npts = sum(len(next(iter(e['coords'].values()))) for e in model.elems)
        if smp.nelems != nel or smp.npoints != npts:
            raise Violation('counts', f'sample has nelems={smp.nelems} npoints={smp.npoints}, model {nel} / {npts}', where='counts')
        if nel == 0:
            rec.label('empty-sample'); return
        spaces = model.spaces
        allx = function.concatenate([geoms[s] for s in spaces]) if hasattr(function, 'concatenate') else numpy.concatenate([geoms[s] for s in spaces])
        try:
            X = numpy.asarray(smp.eval(allx))
        except Exception as e:
            raise Violation('eval-raised', f'{type(e).__name__}: {str(e)[:300]}', where='eval:' + type(e).__name__)
        if X.shape[0] != npts:
            raise Violation('counts', f'eval returned {X.shape[0]} points, npoints={npts}', where='counts')
        seen = numpy.zeros(npts, dtype=int)
        for i, e in enumerate(model.elems):
            idx = numpy.asarray(smp.getindex(i))
            want = numpy.concatenate([e['coords'][s] for s in spaces], axis=1)
            if idx.shape != (len(want),):
                raise Violation('index', f'element {i}: getindex has shape {idx.shape}, element has {len(want)} points', where='index')
            seen[idx] += 1
            got = X[idx]
            a = got[numpy.lexsort(numpy.round(got, 9).T[::-1])]; b = want[numpy.lexsort(numpy.round(want, 9).T[::-1])]
            if not numpy.allclose(a, b, atol=1e-11):
                raise Violation('points', f'element {i}: evaluated points {got.tolist()} != model points {want.tolist()}', where='points')
        if not (seen == 1).all():
            raise Violation('index', f'index does not partition the points: counts {seen.tolist()}', where='index-partition')
        if all(e['weights'] is not None for e in model.elems):
            c = case['coeffs']
            for k in range(3):
                powers = [(k + j) % 3 for j in range(X.shape[1])]
                f = function.Array.cast(c[k])
                for j, p in enumerate(powers):
                    f = f * allx[j] ** p
                J = function.Array.cast(1.)
                for s in spaces:
                    J = J * function.J(geoms[s])
                try:
                    got = float(smp.integrate(f * J))
                except Exception as e:
                    raise Violation('integrate-raised', f'{type(e).__name__}: {str(e)[:300]}', where='integrate:' + type(e).__name__)
                want = 0.
                for e in model.elems:
                    P = numpy.concatenate([e['coords'][s] for s in spaces], axis=1)
                    want += float((c[k] * numpy.prod(P ** numpy.array(powers), axis=1)) @ e['weights'])
                if abs(got - want) > 1e-10 * (1 + abs(want)):
                    raise Violation('integrate', f'integrate(x^{powers}) = {got!r}, sum w f(x) = {want!r}', where='integrate')
            rec.label('integrated')
    d = depth(t)
    rec.nontrivial = d >= 2
    rec.label('depth:%d' % d, 'spaces:%d' % len(spaces))
    for op in _ops(t): rec.label('op:' + op)


def _ops(t):
    out = {t[0]}
    for x in t[1:]:
        if isinstance(x, list) and x and isinstance(x[0], str) and x[0] in ('base', 'mul', 'add', 'take', 'subset', 'custom-index', 'zip'):
            out |= _ops(x)
    return out


# ---------------------------------------------------------------------------------------------
# (located) zip, locate with weights, custom index

@st.composite
def located_cases(draw, tier):
    def nodes():
        n = draw(st.integers(1, 4))
        inner = sorted({draw(st.sampled_from([.1, .2, .25, .4, .5, .6, .75, .8])) for _ in range(n - 1)})
        return [0.] + inner + [1.]
    return dict(nx=nodes(), ny=nodes(), scheme=draw(st.sampled_from([['gauss', 2], ['gauss', 3], ['uniform', 2], ['uniform', 3]])), perm_seed=draw(st.integers(0, 1000)),
                w=[draw(st.sampled_from([.5, 1., 2., .25, 1.5])) for _ in range(12)], coeffs=[draw(st.sampled_from([1., -1., .5, 2.])) for _ in range(3)], dim2=draw(st.booleans()))


def check_located(case, rec):
    from nutils import mesh, function, sample as _sample
    with warnings.catch_warnings():
        warnings.simplefilter('ignore')
        tx, gx = mesh.line(numpy.array(case['nx']), space='X')
        if case['dim2']:
            ty, gy2 = mesh.rectilinear([numpy.array(case['ny']), numpy.array([0., 1.])], space='Y')
            gy = gy2[0]
        else:
            ty, gy = mesh.line(numpy.array(case['ny']), space='Y')
        s1 = tx.sample(*case['scheme'])
        X = numpy.asarray(s1.eval(gx))
        c = case['coeffs']
        f = lambda g: c[0] + c[1] * g + c[2] * g * g
        # (1) zip with a located copy on another space
        targets = numpy.stack([X, numpy.full_like(X, .5)], axis=1) if case['dim2'] else X[:, None]
        s2 = ty.locate(gy2 if case['dim2'] else gy[None], targets, tol=1e-10, eps=1e-12)
        z = s1.zip(s2)
        if z.npoints != s1.npoints:
            raise Violation('counts', f'zip has {z.npoints} points, first sample {s1.npoints}', where='zip:counts')
        a, b = z.eval([gx, gy])
        a = numpy.asarray(a); b = numpy.asarray(b)
        if not numpy.allclose(a, X, atol=1e-13):
            raise Violation('points', 'zip does not report the first sample\'s points in its order', where='zip:order')
        if abs(a - b).max() > 1e-9:
            raise Violation('points', f'zipped samples disagree on the physical point by {abs(a - b).max():.2e}', where='zip:pairing')
        got = float(z.integrate(f(gx) * f(gy) * function.J(gx[None])))
        want = float(s1.integrate(f(gx) * f(gx) * function.J(gx[None])))
        if abs(got - want) > 1e-9 * (1 + abs(want)):
            raise Violation('integrate', f'zipped integral {got!r} != integral over the first sample {want!r}', where='zip:integrate')
        # (1b) two located samples of the same points in a scrambled order (each leaves elements and comes back), zipped: the index of the zip
        #      still advertises, per element, the positions at which evaluation reports that element's points
        if not case['dim2'] and len(X) >= 3:
            order = numpy.argsort((numpy.arange(len(X)) * 7919 + case['perm_seed']) % 1009, kind='stable')
            Xp = X[order]
            sa = tx.locate(gx[None], Xp[:, None], tol=1e-10, eps=1e-12)
            sb = ty.locate(gy[None], Xp[:, None], tol=1e-10, eps=1e-12)
            zz = sa.zip(sb)
            va, vb = (numpy.asarray(q) for q in zz.eval([gx, gy]))
            if not numpy.allclose(va, Xp, atol=1e-9) or not numpy.allclose(vb, Xp, atol=1e-9):
                raise Violation('points', 'zip of two located samples does not evaluate in input order', where='zip2:order')
            seen = []
            for i in range(zz.nelems):
                idx = numpy.asarray(zz.getindex(i))
                seen.extend(idx.tolist())
                sub = zz.take_elements(numpy.array([i]))
                sv = numpy.sort(numpy.asarray(sub.eval(gx)))
                if len(sv) != len(idx) or not numpy.allclose(sv, numpy.sort(va[idx]), atol=1e-12):
                    raise Violation('index', f'zip: element {i} advertises positions {idx.tolist()} (points {va[idx].tolist()}) but holds the points {sv.tolist()}', where='zip2:index')
            if sorted(seen) != list(range(zz.npoints)):
                raise Violation('index', f'zip: the element indices {seen} are not a permutation of the points', where='zip2:index-permutation')
        # (2) locate with weights: integral is the weighted sum in input order
        k = min(len(X), 12)
        w = numpy.array(case['w'][:k])
        lw = tx.locate(gx[None], X[:k, None], tol=1e-10, eps=1e-12, weights=w)
        got = float(lw.integrate(f(gx)))
        want = float((w * f(X[:k])).sum())
        if abs(got - want) > 1e-10 * (1 + abs(want)):
            raise Violation('integrate', f'located sample with weights integrates to {got!r}, sum w f(x) = {want!r}', where='locate-weights')
        ev = numpy.asarray(lw.eval(gx))
        if not numpy.allclose(ev, X[:k], atol=1e-9):
            raise Violation('points', 'located sample does not evaluate in input order', where='locate-order')
        # (3) custom index: evaluation order follows the index
        perm = numpy.argsort((numpy.arange(s1.npoints) * 7919 + case['perm_seed']) % 1009, kind='stable')   # a permutation determined by the generated integer (no RNG)
        sc = _sample.Sample.new('X', (tx.transforms, tx.opposites), s1.points, index=perm)
        Y = numpy.asarray(sc.eval(gx))
        for i in range(sc.nelems):
            idx = numpy.asarray(sc.getindex(i)); base = numpy.asarray(s1.getindex(i))
            if not numpy.array_equal(idx, perm[base]):
                raise Violation('index', f'custom index: element {i} has index {idx.tolist()}, expected {perm[base].tolist()}', where='custom-index')
            if not numpy.allclose(Y[idx], X[base], atol=1e-13):
                raise Violation('points', f'custom index: element {i} evaluates other points than advertised', where='custom-index:eval')
        got = float(sc.integrate(f(gx) * function.J(gx[None]))); want = float(s1.integrate(f(gx) * function.J(gx[None])))
        if abs(got - want) > 1e-12 * (1 + abs(want)):
            raise Violation('integrate', 'custom index changes the integral', where='custom-index:integrate')
    rec.nontrivial = True
    rec.label('zip', 'locate-weights', 'custom-index')



# ---- samples assembled by hand from selections of transforms and points (Sample.new) ----------------------------------------

@st.composite
def assembled_cases(draw, tier):
    kind = draw(st.sampled_from(['mixed', 'mixed', 'triangle', 'square', 'line']))
    n = draw(st.integers(1, 3))
    # a list of element numbers (reduced modulo the mesh size): any order; 'perm' makes it a full-length permutation that keeps the first and last element in place
    sel = [draw(st.integers(0, 40)) for _ in range(draw(st.integers(1, 8)))]
    return dict(kind=kind, n=n, sel=sel, mode=draw(st.sampled_from(['any', 'perm', 'perm-fixed-ends', 'reverse', 'unique'])), scheme=draw(st.sampled_from(['gauss', 'gauss', 'bezier', 'uniform'])),
                degree=draw(st.integers(1, 4)), via=draw(st.sampled_from(['take', 'getitem', 'chain-take'])), custom_index=draw(st.booleans()), shuffle=[draw(st.integers(0, 1000)) for _ in range(6)])


def check_assembled(case, rec):
    from nutils import mesh, function, sample as _sample
    with warnings.catch_warnings():
        warnings.simplefilter('ignore')
        if case['kind'] == 'line':
            topo, x = mesh.line(case['n'] + 2)
            x = x[numpy.newaxis]
        else:
            topo, x = mesh.unitsquare(case['n'] + (case['kind'] == 'square'), case['kind'])
        nel = len(topo)
        mode = case['mode']
        if mode in ('any', 'unique'): idx = list(dict.fromkeys(i % nel for i in case['sel']))      # any order, no repeats: a selection of transforms refuses repeated elements
        elif mode == 'reverse': idx = list(range(nel))[::-1]
        else:
            inner = list(range(1, nel - 1)) if mode == 'perm-fixed-ends' else list(range(nel))
            # deterministic shuffle driven by the drawn integers (selection sort with generated picks)
            pool = list(inner); out = []
            for k in range(len(inner)):
                out.append(pool.pop(case['shuffle'][k % 6] % len(pool)))
            idx = ([0] + out + [nel - 1]) if mode == 'perm-fixed-ends' and nel >= 2 else out
        if not idx: raise Discard('empty-selection')
        degree = max(case['degree'], 2) if case['scheme'] == 'bezier' else case['degree']
        ind = numpy.array(idx, dtype=int)
        allpoints = topo.references.getpoints(case['scheme'], degree)
        if case['via'] == 'take': points = allpoints.take(ind)
        elif case['via'] == 'getitem': points = allpoints[ind]
        else:     # through a chain of the two halves
            h = nel // 2
            points = (allpoints[:h] + allpoints[h:]).take(ind) if 0 < h < nel else allpoints.take(ind)
        descr = f'Sample.new over elements {idx} of unitsquare/line {case["kind"]} n={case["n"]} ({case["scheme"]} {degree}, points via {case["via"]})'
        try:
            smp = _sample.Sample.new(topo.space, (topo.transforms[ind], topo.opposites[ind]), points)
        except Exception as e:
            raise Violation('assembled-raised', f'{descr}: {type(e).__name__}: {str(e)[:200]}', where='assembled:new:' + type(e).__name__)
        ref = topo.sample(case['scheme'], degree)
        f = [x, function.J(x), (x * x).sum(-1) + 1.]
        try:
            gx, gj, gf = [numpy.asarray(a) for a in smp.eval(f)]
            rx, rj, rf = [numpy.asarray(a) for a in ref.eval(f)]
        except Exception as e:
            raise Violation('assembled-raised', f'{descr}: eval: {type(e).__name__}: {str(e)[:200]}', where='assembled:eval:' + type(e).__name__)
        if smp.nelems != len(idx):
            raise Violation('assembled-count', f'{descr}: nelems {smp.nelems}', where='assembled:nelems')
        npts = [len(ref.getindex(i)) for i in idx]
        if smp.npoints != sum(npts) or len(gx) != sum(npts):
            raise Violation('assembled-count', f'{descr}: npoints {smp.npoints}, evaluated {len(gx)}, the selected elements have {sum(npts)}', where='assembled:npoints')
        for k, i in enumerate(idx):
            mine = smp.getindex(k); theirs = ref.getindex(i)
            if len(mine) != len(theirs):
                raise Violation('assembled-points', f'{descr}: element {k} (mesh element {i}) has {len(mine)} points, its reference defines {len(theirs)}', where='assembled:element-npoints')
            if not (numpy.allclose(gx[mine], rx[theirs], atol=1e-13) and numpy.allclose(gj[mine], rj[theirs], atol=1e-13)):
                raise Violation('assembled-points', f'{descr}: element {k} (mesh element {i}) evaluates the geometry at {gx[mine].tolist()[:3]}.., the element\'s own points give {rx[theirs].tolist()[:3]}..', where='assembled:coords')
        if case['scheme'] == 'gauss':
            want = sum(float(numpy.asarray(ref.take_elements(numpy.array([i])).integrate(f[2] * function.J(x)))) for i in idx)
            got = float(numpy.asarray(smp.integrate(f[2] * function.J(x))))
            if abs(got - want) > 1e-12 * (1 + abs(want)):
                raise Violation('assembled-integral', f'{descr}: integral {got}, sum of the selected elements\' integrals {want}', where='assembled:integral')
    rec.nontrivial = idx != sorted(idx) or len(set(idx)) < len(idx)
    rec.label('assembled:' + case['kind'], 'assembled-mode:' + mode, 'assembled-via:' + case['via'], *(['assembled:unsorted'] if idx != sorted(idx) else []), *(['assembled:repeats'] if len(set(idx)) < len(idx) else []),
              *(['assembled:full-length'] if len(idx) == nel else []))


SUBS = [Sub('gauss', gauss_cases, check_gauss, {'quick': 500, 'thorough': 6000}, weight=2),
        Sub('algebra', algebra_cases, check_algebra, {'quick': 60, 'thorough': 1500}, weight=2, timeout=120),
        Sub('located', located_cases, check_located, {'quick': 30, 'thorough': 600}, weight=1, timeout=120),
        Sub('assembled', assembled_cases, check_assembled, {'quick': 60, 'thorough': 1500}, weight=1, timeout=120)]

def _union_in_product(case, v):
    def has(t, op):
        return isinstance(t, list) and bool(t) and (t[0] == op or any(has(x, op) for x in t[1:] if isinstance(x, list)))
    def walk(t):
        if not isinstance(t, list) or not t or not isinstance(t[0], str): return False
        if t[0] == 'mul' and (has(t[1], 'add') or has(t[2], 'add')): return True
        return any(walk(x) for x in t[1:] if isinstance(x, list))
    return 'NotImplementedError' in v.detail and walk(case['term'])


TRIGGERS = {'union-sample-inside-product': _union_in_product}

MANIFEST = dict(
    category='exploration',
    technique='property-based testing (Hypothesis) with closed-form and model oracles: quadrature schemes on generated reference elements vs closed-form monomial integrals; generated sample-algebra terms vs a reference model of (element, points, weights)',
    text='Gauss schemes of every documented degree on simplices, tensor products, refined children and affinely trimmed elements must have all points inside, weights summing to the independently computed volume and must '
         'integrate every admissible monomial to its closed form; samples assembled with Sample.new from permuted selections of transforms and points (take, index arrays, chained halves) must pair every element with its own points; generated sample terms (products, sums, take_elements, subset) over line/rectilinear meshes are compared element by element with a reference model: counts, '
         'index partition, evaluated points per element, and integrate(f)==sum w f(x). Held on everything explored.',
    note='Trusted: Dirichlet closed forms, own Gauss-Legendre/Duffy rules and polygon clipping; Hypothesis. zip, locate(weights=...) and custom index are checked by the separate sub-check "located" on 1-D/2-D meshes.',
)
