"""C01 — Simplification terminates and preserves the value of every expression (DESIGN.md §4 C01)."""
import numpy, sys
from hypothesis import strategies as st
from vlib.core import Sub, Violation, Discard
from vlib import genexpr, evharness

PROPERTY = 'C01'
LEVEL = 'exploration'
BUDGET = {'quick': 50, 'thorough': 540}
SHARDS = {'quick': 8, 'thorough': 16}
RULE = ('cases: typed evaluable programs (DAGs with shared subterms; bool/int/float/complex; axis lengths 0..4; constants, arguments, '
        'loop indices, element-wise tables; ~55 operators incl. nested and sibling loops with equal names) generated top-down by a '
        'Hypothesis strategy, with argument values from a dyadic grid. oracle: independent numpy interpreter of the program; the '
        'rewrite driver is wrapped to count steps (bound 4000+1000*nodes) and to record every rewrite so that a mismatch is localised '
        'to the first unsound step. non-trivial: at least one rewrite fired and the program has >=3 nodes; distinct = distinct program hash')
ASSUMPTIONS = ['the numpy reference interpreter (vlib/genexpr.py Ref) is the meaning of a program; it is cross-checked on every case against '
               'nutils\' own unsimplified, unoptimised evaluation and a disagreement there is reported by C02, not here',
               'termination is "within the step bound"', 'cases whose reference is non-finite, ill-conditioned or kink-sensitive are discarded (counted)']


def strategy(tier):
    if tier == 'quick':
        return genexpr.programs(maxnodes=12, maxdepth=5, maxloops=2)
    return st.one_of(genexpr.programs(maxnodes=14, maxdepth=5, maxloops=2),
                     genexpr.programs(maxnodes=40, maxdepth=9, maxloops=4))


def check(prog, rec):
    from nutils import evaluable
    ref, want, args, tols = evharness.reference(prog)
    try:
        outs, built = genexpr.build(prog)
    except Exception as e:
        # constructors reject the program: generator is unsound for this case (harness), unless nutils asserts on valid input
        raise Violation('construct-raised', f'{type(e).__name__}: {e}', where='build:' + type(e).__name__)
    func = outs[0]
    nn = len(prog['nodes'])
    # meaning according to nutils itself, without rewriting
    try:
        raw = evaluable.eval_once(func, arguments=args, _simplify=False, _optimize=False)
    except Exception as e:
        raise Discard('upstream-unsimplified-raised')
    if evharness.close(raw, want[0], tols[0]) is not None:
        raise Discard('upstream-unsimplified-mismatch')
    sys.setrecursionlimit(3000)
    evharness.clear_cache(func)
    with evharness.RewriteTrace(bound=4000 + 1000 * nn) as tr:
        try:
            simp = func.simplified
        except evharness.StepBound as e:
            raise Violation('step-bound', str(e) + ' recurring: ' + ','.join(k for k, _ in tr.rules.most_common(4)),
                            where='+'.join(sorted(k for k, _ in tr.rules.most_common(3))))
        except RecursionError as e:
            raise Violation('recursion', 'RecursionError in simplified', where='+'.join(sorted(k for k, _ in tr.rules.most_common(3))))
        except Exception as e:
            msg = str(e)
            if 'caught in a loop' in msg:
                raise Violation('rewrite-loop', msg, where=msg.split('.')[0])
            raise Violation('simplify-raised', f'{type(e).__name__}: {msg[:300]}', where=type(e).__name__ + ':' + _frame(e))
    if simp.ndim != func.ndim or simp.dtype != func.dtype:
        raise Violation('metadata', f'simplified has ndim={simp.ndim} dtype={simp.dtype}, original ndim={func.ndim} dtype={func.dtype}')
    try:
        got = evaluable.eval_once(simp, arguments=args, _simplify=False, _optimize=False)
    except Exception as e:
        w, d = evharness.localise(tr.log, args)
        raise Violation('simplified-eval-raised', f'{type(e).__name__}: {str(e)[:300]} (original evaluates fine); first unsound step: {d}', where=w or type(e).__name__)
    bad = evharness.close(got, want[0], tols[0])
    if bad:
        w, d = evharness.localise(tr.log, args)
        raise Violation('value-mismatch', f'{bad}; first unsound step: {d}', where=w or 'unlocalised')
    # idempotence of the normal form (a second pass must be a no-op)
    rec.nontrivial = tr.fired >= 1 and nn >= 3 and simp is not func
    rec.label(*('rule:' + k for k in tr.rules))
    rec.label(*('op:' + o for o in genexpr.features(prog)))
    rec.label('steps<=%d' % (10 ** len(str(tr.steps))))
    if any(n['op'] in ('loopsum', 'loopcat') for n in prog['nodes']): rec.label('has-loop')
    if len({id(c) for n in prog['nodes'] for c in n['ch']}) and _shared(prog): rec.label('shared-subterm')
    if prog['args']: rec.label('has-args')


def _shared(prog):
    uses = {}
    for n in prog['nodes']:
        for c in n['ch']:
            uses[c] = uses.get(c, 0) + 1
    return any(v > 1 for v in uses.values())


def _frame(e):
    import traceback
    tb = traceback.extract_tb(e.__traceback__)
    for fr in reversed(tb):
        if 'nutils' in fr.filename:
            return f'{fr.name}'
    return '?'


SUBS = [Sub('value', strategy, check, {'quick': 4000, 'thorough': 40000}, timeout=30)]


# ---- known-finding triggers (over-approximating structural predicates; see DESIGN.md section 7)
def _ops(case):
    return [n['op'] for n in case['nodes']]

TRIGGERS = {
    # non-termination in programs that combine a diagonal with an inflation / take (over-approximation, DESIGN.md section 7)
    'inflate-diagonalize-interplay': lambda case, v: genexpr.known_loop_inflate_diag(case),
    # non-termination of the diagonal of an array inflated at a scalar index and through an index vector (found at VERIF_SEED=9)
    'takediag-scalar-and-indexed-inflate': lambda case, v: genexpr.known_loop_takediag_inflate(case),
}

MANIFEST = dict(
    category='exploration',
    technique='property-based differential testing (Hypothesis): generated typed expression DAGs; simplified evaluation vs an independent numpy interpreter; step-bounded rewrite driver; faulty-step localisation',
    text='Generated well-typed evaluable programs are simplified under a step counter (termination = within bound, no loop/recursion error) and the simplified '
         'expression is evaluated and compared with an independent numpy interpretation of the program (bit-exact for bool/int, conditioned tolerance for float/complex). '
         'Held on everything explored; programs are bounded (<=40 nodes, axes <=4, <=4 loops).',
    note='Trusted: the numpy reference interpreter in vlib/genexpr.py (cross-checked per case against unsimplified nutils evaluation), Hypothesis. Non-termination slower than the step bound is missed.',
)
