#!/venv/bin/python
"""print the prompt given to a fresh sub-agent that seeds a property-breaking change (see DESIGN.md section 8)"""
import json, sys
pid = sys.argv[1]; tag = sys.argv[2] if len(sys.argv) > 2 else 'a'
p = [json.loads(l) for l in open('/verif/properties.jsonl') if json.loads(l)['id'] == pid][0]
# optional: indices into the property's own list of anchored mechanisms (part of the property record), to steer later rounds to other code
focus = [p['anchors']['mechanism'][int(i) % len(p['anchors']['mechanism'])] for i in sys.argv[3:5]]
FOCUS = '' if not focus else ('\nThe property record names these parts of the implementation among the mechanisms it rests on; place your two changes in (or right next to) them, one each:\n' + ''.join(f"  - {m['name']} ({m['where']})\n" for m in focus))
wt = f'/tmp/seed-{pid}-{tag}'
print(f'''You are helping to evaluate a verification effort for the Python finite element library nutils (evalf/nutils). Your job is to play the role of a developer who introduces a subtle regression.

Work ONLY inside your own scratch git worktree of the repository. Create it with:
    git -C /repo worktree add --detach {wt}
and work in {wt} (source in {wt}/src/nutils, tests in {wt}/tests). Never edit anything under /repo itself, and do not read or use anything under /verif (it is off limits for this task). To run python against your worktree use:
    cd {wt} && PYTHONPATH={wt}/src /venv/bin/python ...
(check with `python -c "import nutils; print(nutils.__file__)"` that it resolves to your worktree). There is no network access.

The property ({pid}): "{p['title']}"
Statement: {p['statement']}
It is meant to hold: {p['quantifier']['text']}
{FOCUS}
Task: produce TWO independent, different changes to the library source (src/nutils/...) each of which breaks this property, while the library still imports and the existing test suite still passes. Each change should be a realistic mistake (an off-by-one, a wrong variable, a dropped condition, an "optimisation" that is wrong in a corner, two cooperating sites that each look fine alone), small (a few lines), and it must need something specific to manifest - an unusual input, a particular multi-step sequence of operations, a particular interleaving or fault point, a corner of the input space - rather than something ordinary use or the existing tests would expose at once. The two changes should be in different functions/mechanisms.

For each change deliver, in the directory {wt}/seed_out/<name>/ (name = short-kebab-case):
  - patch.diff : `git diff` of the change against the pristine worktree (only src/ files; apply-able with `git apply` in a clean checkout)
  - demo.py : a small standalone program that exits 0 on the pristine code and exits non-zero (assertion failure) with the change applied. It must only use the public or semi-public nutils API and run in well under a minute.
  - notes.md : which property it breaks, what it needs in order to manifest, and which existing test files you ran to confirm they still pass.

Procedure per change: (1) make the edit; (2) run the most relevant existing test modules, e.g. `cd {wt} && OMP_NUM_THREADS=1 OPENBLAS_NUM_THREADS=1 PYTHONPATH={wt}/src /venv/bin/python -m pytest -q -p no:cacheprovider -x -n 3 tests/test_<module>.py` for the one to three test modules that exercise the code you touched most directly (do NOT run the whole test suite: the machine is shared and a full run takes very long; pick the modules by grepping the tests for the functions/classes you changed) (note: tests in tests/test_mesh.py for gmsh fail on the pristine tree already, ignore those) - if a test fails, your change is too visible: revise it; (3) write demo.py and confirm it fails with the change and passes without (use `git diff > /tmp/<name>.diff` and `git apply -R /tmp/<name>.diff`; do NOT use `git stash`: the stash is shared between all worktrees of the repository and other people work in other worktrees); (4) save patch.diff, then revert the worktree (`git checkout -- src`) before starting the second change so the two patches are independent.

Finish by listing the directories you produced and, for each, a one-paragraph description. Do NOT remove the worktree; leave {wt} in a clean state (`git status` shows only seed_out/ as untracked).''')
