#!/venv/bin/python
"""Regenerate MANIFEST.json from the property modules that exist (props/cXX.py with MANIFEST dict)."""
import json, os, sys, importlib
ROOT = os.path.dirname(os.path.dirname(os.path.abspath(__file__)))
sys.path.insert(0, ROOT)

props = [json.loads(l) for l in open(os.path.join(ROOT, 'properties.jsonl'))]
checks, na = [], []
for p in props:
    pid = p['id']
    path = os.path.join(ROOT, 'props', pid.lower() + '.py')
    meta = None
    if os.path.exists(path):
        src = open(path).read()
        if '\nMANIFEST = ' in src:
            ns = {}
            # MANIFEST is a literal dict at module level; evaluate only that assignment
            start = src.index('\nMANIFEST = ') + len('\nMANIFEST = ')
            depth = 0
            for i, ch in enumerate(src[start:]):
                if ch in '({[': depth += 1
                if ch in ')}]':
                    depth -= 1
                    if depth == 0:
                        end = start + i + 1
                        break
            meta = eval(src[start:end], {})
    if meta is None:
        na.append(dict(property_id=pid, reason='check not built yet in this session (planned, see DESIGN.md section 4); no claim is made'))
        continue
    checks.append(dict(
        property_id=pid,
        quick_cmd=f'/venv/bin/python check {pid} --tier quick',
        thorough_cmd=f'/venv/bin/python check {pid} --tier thorough',
        evidence_file=f'evidence/{pid}.json',
        replay_cmd_template=f'/venv/bin/python check {pid} --replay {{path}}',
        engine='hypothesis-runner',
        level_claimed=dict(category=meta['category'], text=meta['text'], design_ref=f'DESIGN.md section 4, {pid}'),
        level_note=meta['note'],
        technique=meta['technique'],
    ))

manifest = dict(
    version=1,
    setup_cmd='/venv/bin/python check --bootstrap',
    hooks=dict(guard='NUTILS_VERIF', enable='no source hooks: checks import nutils from /repo/src (editable install) and observe it from outside '
               '(monkeypatching inside the check process only); NUTILS_VERIF=1 is set by ./check but nothing in /repo reads it',
               baseline_off_cmd='/venv/bin/python tools/baseline.py', source_commits=[], add_only=True),
    engines=[dict(name='hypothesis-runner', path='vlib/core.py', serves_properties=[c['property_id'] for c in checks],
                  kind_free_text='Hypothesis 6.168 strategies producing plain-data cases; per-property interpreter + independent oracle; '
                                 'sharded over processes; shrinking; JSON replay files; known-findings matching')],
    checks=checks,
    not_applicable=na,
    notes='All checks: exit 0 = held on everything explored, 1 = VIOLATION line(s), 2 = harness error. VERIF_SEED selects the Hypothesis seed. '
          'known_findings.json lists open findings (printed as KNOWN-FINDING) and fixed ones (suppress nothing).',
)
with open(os.path.join(ROOT, 'MANIFEST.json'), 'w') as f:
    json.dump(manifest, f, indent=1)
print('checks:', [c['property_id'] for c in checks], 'not_applicable:', len(na))
try:
    import jsonschema
    jsonschema.validate(manifest, json.load(open('/root/.vp/MANIFEST.schema.json')))
    print('schema ok')
except ImportError:
    pass
