#!/venv/bin/python
"""tools/addcorpus.py <replay.json> <name> [note]  -> corpus/<ID>/<name>.json"""
import json, os, sys
ROOT = os.path.dirname(os.path.dirname(os.path.abspath(__file__)))
d = json.load(open(sys.argv[1]))
out = dict(property=d['property'], sub=d['sub'], case=d['case'], note=sys.argv[3] if len(sys.argv) > 3 else d.get('detail', '')[:300])
os.makedirs(os.path.join(ROOT, 'corpus', d['property']), exist_ok=True)
path = os.path.join(ROOT, 'corpus', d['property'], sys.argv[2] + '.json')
json.dump(out, open(path, 'w'), indent=1)
print(path)
