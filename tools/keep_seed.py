#!/venv/bin/python
"""tools/keep_seed.py <worktree> <seed-name> <property> <caught_by> <tests...>
Confirms a seeded change in its scratch worktree (demo passes on pristine, fails with patch; listed test modules pass with patch)
and stores it under /verif/seeded/<property>-<seed-name>/."""
import json, os, shutil, subprocess, sys
wt, name, prop, caught = sys.argv[1:5]
tests = sys.argv[5:]
sd = os.path.join(wt, 'seed_out', name)
env = dict(os.environ, PYTHONPATH=os.path.join(wt, 'src') + os.pathsep + '/verif/.deps')
def run(cmd, **kw):
    return subprocess.run(cmd, cwd=wt, env=env, stdout=subprocess.PIPE, stderr=subprocess.STDOUT, text=True, **kw)
assert run(['git', 'status', '--porcelain', '--untracked-files=no']).stdout.strip() == '', 'worktree not clean'
r0 = run(['/venv/bin/python', os.path.join(sd, 'demo.py')], timeout=600)
assert run(['git', 'apply', os.path.join(sd, 'patch.diff')]).returncode == 0, 'patch does not apply'
try:
    r1 = run(['/venv/bin/python', os.path.join(sd, 'demo.py')], timeout=600)
    tr = None
    if tests:
        tr = run(['/venv/bin/python', '-m', 'pytest', '-q', '-p', 'no:cacheprovider', '-n', '8', '--timeout=900'] + tests, timeout=3600)
finally:
    run(['git', 'checkout', '--', '.'])
print('demo pristine rc', r0.returncode, '| demo patched rc', r1.returncode, '| tests', None if tr is None else tr.stdout.strip().splitlines()[-1])
ok = r0.returncode == 0 and r1.returncode != 0 and (tr is None or tr.returncode == 0)
if not ok:
    print(r0.stdout[-500:], r1.stdout[-500:], (tr.stdout[-1500:] if tr else ''))
    sys.exit(1)
dst = f'/verif/seeded/{prop}-{name}'
os.makedirs(dst, exist_ok=True)
for f in ('patch.diff', 'demo.py', 'notes.md'):
    if os.path.exists(os.path.join(sd, f)):
        shutil.copy(os.path.join(sd, f), dst)
base = run(['git', 'rev-parse', 'HEAD']).stdout.strip()
json.dump(dict(property=prop, name=name, base_commit=base, needs=open(os.path.join(sd, 'notes.md')).read()[:1500] if os.path.exists(os.path.join(sd, 'notes.md')) else '',
               confirmed=dict(demo_pristine_rc=r0.returncode, demo_patched_rc=r1.returncode, tests_run_with_patch=tests,
                              tests_result=None if tr is None else tr.stdout.strip().splitlines()[-1]),
               caught_by=caught), open(os.path.join(dst, 'meta.json'), 'w'), indent=1)
print('kept', dst)
