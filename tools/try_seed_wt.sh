#!/bin/bash
# tools/try_seed_wt.sh <patch.diff> <ID> [quick|thorough] : like try_seed.sh but in the scratch worktree /tmp/mut (does not touch /repo)
patch=$1; id=$2; tier=${3:-quick}
WT=${VERIF_WT:-/tmp/mut2}; [ -d $WT ] || git -C /repo worktree add --detach $WT >/dev/null 2>&1
cd $WT && git checkout -q -- . && git checkout -q --detach "$(git -C /repo rev-parse HEAD)" || exit 2
git apply "$patch" || { echo "patch does not apply"; exit 2; }
cd /verif; start=$(date +%s)
VERIF_NUTILS_SRC=$WT/src /venv/bin/python check "$id" --tier "$tier" ${VERIF_EXTRA:-} 2>&1 | grep -E "^VIOLATION|^  sub|^C[0-9]+ tier|HARNESS" | cut -c1-260 | head -${VERIF_LINES:-8}
echo "elapsed=$(( $(date +%s) - start ))s"
cd $WT && git checkout -q -- .
