#!/venv/bin/python
import json, sys
d = json.load(open(sys.argv[1]))
print(d.get('kind'), '|', d.get('detail', '')[:int(sys.argv[2]) if len(sys.argv) > 2 else 600], '|', d.get('info'))
c = d['case']
prog = c.get('prog', c if 'nodes' in c else None)
if prog:
    for i, n in enumerate(prog['nodes']): print(i, n['op'], n['ch'], n['p'], n['t'])
    print('outs', prog['outs'], 'args', prog['args'])
print({k: v for k, v in c.items() if k not in ('prog', 'nodes', 'args', 'outs')})
