#!/venv/bin/python
"""Re-run every kept seeded change against the current checks (scratch worktree, never /repo).
usage: tools/reseed.py [name-substring ...]   -> appends to seeded/results.jsonl, prints a summary line per seed.
The check that is run is the property the seed was filed under (meta.json 'property'), quick tier, up to 2 attempts (the second at twice the time budget)."""
import json, os, glob, subprocess, sys, time
ROOT = os.path.dirname(os.path.dirname(os.path.abspath(__file__)))
WT = os.environ.get('VERIF_WT', '/tmp/mut')

def sh(cmd, **kw):
    return subprocess.run(cmd, shell=True, stdout=subprocess.PIPE, stderr=subprocess.STDOUT, text=True, **kw)

def main():
    want = sys.argv[1:]
    if not os.path.isdir(WT):
        sh(f'git -C /repo worktree add --detach {WT}')
    head = sh('git -C /repo rev-parse HEAD').stdout.strip()
    for meta in sorted(glob.glob(os.path.join(ROOT, 'seeded', '*', 'meta.json'))):
        d = os.path.dirname(meta); name = os.path.basename(d)
        if want and not any(w in name for w in want): continue
        m = json.load(open(meta))
        sh(f'cd {WT} && git checkout -q -- . && git checkout -q --detach {head}')
        r = sh(f'cd {WT} && git apply {d}/patch.diff')
        if r.returncode:
            print(name, 'PATCH DOES NOT APPLY', r.stdout[-200:]); continue
        props = [m['property']] + [p for p in m.get('also_checked_by', [])]
        res = None
        for attempt, scale in enumerate(('1', '2')):
            t0 = time.time()
            out = sh(f'cd {ROOT} && VERIF_TIME_SCALE={scale} VERIF_NUTILS_SRC={WT}/src /venv/bin/python check {props[0]} --tier quick')
            viol = [l for l in out.stdout.splitlines() if l.startswith('VIOLATION')]
            kinds = [l.strip()[:200] for l in out.stdout.splitlines() if l.startswith('  sub=')]
            res = dict(seed=name, check=props[0], caught=bool(viol), violations=len(viol), first=kinds[:1], wall=round(time.time() - t0), time_scale=int(scale), head=head[:7], verif=sh(f'git -C {ROOT} rev-parse --short HEAD').stdout.strip())
            if viol: break
        print(json.dumps(res)); sys.stdout.flush()
        open(os.path.join(ROOT, 'seeded', 'results.jsonl'), 'a').write(json.dumps(res) + '\n')
        sh(f'cd {WT} && git checkout -q -- .')

if __name__ == '__main__':
    main()
