#!/venv/bin/python
"""Rebuild the tail of DESIGN.md (sections 7-9) from tools/design_tail.md and seeded/*/meta.json"""
import json, os, glob, re
ROOT = os.path.dirname(os.path.dirname(os.path.abspath(__file__)))
rows = []
last = {}
rp = os.path.join(ROOT, 'seeded', 'results.jsonl')
if os.path.exists(rp):
    for l in open(rp):
        r = json.loads(l); last[r['seed']] = r      # the latest re-run wins (tools/reseed.py)
for m in sorted(glob.glob(os.path.join(ROOT, 'seeded', '*', 'meta.json'))):
    d = json.load(open(m))
    name = os.path.basename(os.path.dirname(m))
    needs = re.sub(r'\s+', ' ', d.get('needs_short') or d.get('needs', ''))[:260]
    r = last.get(name)
    rerun = '' if r is None else (f"caught by {r['check']} quick in {r['wall']} s" + (' (2x budget)' if r['time_scale'] > 1 else '') if r['caught'] else f"NOT caught by {r['check']} quick") + f" @ {r['verif']}"
    rows.append(f"| `{name}` | {needs} | {d.get('caught_by', '?')} | {d.get('budget', '')} | {rerun} |")
mut = {}
mp = os.path.join(ROOT, 'mutants', 'results.jsonl')
if os.path.exists(mp):
    for l in open(mp):
        d = json.loads(l)
        mut[d['mutant'], d['check']] = d       # the latest run wins
mrows = []
for (name, chk), d in mut.items():
    first = re.sub(r'[|`]', ' ', (d['first'][0] if d['first'] else ''))[:150]
    mrows.append(f"| `{name}` | {chk} quick | {'caught: ' + first if d['violations'] else 'not caught'} | {d['wall']} s |")
tail = open(os.path.join(ROOT, 'tools', 'design_tail.md')).read().replace('SEEDED_TABLE', '\n'.join(rows)).replace('MUTANT_TABLE', '\n'.join(mrows))
s = open(os.path.join(ROOT, 'DESIGN.md')).read()
i = s.index('## 7. ')
s = s[:i] + tail
s = s.replace('## 2. Architecture (planned; all paths checkout-relative)', '## 2. Architecture (plan; see section 9 for what was built differently)')
s = s.replace('confirmed). No framework code exists yet; section 2 is the plan for it.', 'confirmed). Sections 2-6 are the plan as written before the code; sections 7-9 record what was built and found.')
s = s.replace('4 per-property designs (C01–C20) · 5 limits, not-applicable · 6 soundness rules (false-alarm\navoidance) · 7 defects already confirmed on the pinned tree · 8 sensitivity (mutation) protocol.',
              '4 per-property designs (C01–C20) · 5 limits, not-applicable · 6 soundness rules (false-alarm\navoidance) · 7 findings on the pinned tree (fixed, open, false alarms) · 8 sensitivity (seeded breaks, mutants) · 9 as built.')
open(os.path.join(ROOT, 'DESIGN.md'), 'w').write(s)
print('DESIGN.md rebuilt with', len(rows), 'seeded rows')
