#!/bin/bash
# tools/try_seed.sh <patch.diff> <ID> [quick|thorough]  : apply a seeded change to /repo, run the check, undo it straight afterwards
set -u
patch=$1; id=$2; tier=${3:-quick}
cd /repo || exit 2
if ! git diff --quiet; then echo "/repo has uncommitted changes"; exit 2; fi
git apply "$patch" || { echo "patch does not apply"; exit 2; }
trap 'git -C /repo checkout -- .' EXIT
cd /verif
start=$(date +%s)
/venv/bin/python check "$id" --tier "$tier" 2>&1 | grep -E "^VIOLATION|^KNOWN|^C[0-9]+ tier|HARNESS" | cut -c1-300
echo "exit=${PIPESTATUS[0]} elapsed=$(( $(date +%s) - start ))s"
