#!/venv/bin/python
"""Hand mutants for the sensitivity protocol (DESIGN.md section 8).

usage: tools/mutants.py [name ...]      (no names: all)
Each mutant is a textual replacement in a scratch worktree (/tmp/mut, never /repo); the listed checks are run
with VERIF_NUTILS_SRC pointing at the worktree; results are appended to mutants/results.jsonl.
"""
import json, os, subprocess, sys, time
ROOT = os.path.dirname(os.path.dirname(os.path.abspath(__file__)))
WT = '/tmp/mut'

M = [
 # name, file, old, new, checks
 ('transpose-unravel-axis', 'evaluable.py', "            axes.insert(axis+1, orig_axis+1)\n            return transpose(tryunravel, tuple(axes))", "            axes.insert(axis, orig_axis+1)\n            return transpose(tryunravel, tuple(axes))", ['C01']),
 ('insertaxis-sum-factor', 'evaluable.py', "                return self.func * astype(self.length, self.func.dtype)\n            if self.length._intbounds[0] >= 1:", "                return self.func * astype(self.length - 1, self.func.dtype) if False else self.func * astype(self.length, self.func.dtype) * (astype(self.length, self.func.dtype) ** 0)\n            if self.length._intbounds[0] >= 0:", ['C01']),
 ('loopsum-const-factor', 'evaluable.py', "            return self.func * astype(self.index.length, self.func.dtype)\n        for axis, parts in self.func._inflations:", "            return self.func * astype(self.index.length - 1, self.func.dtype)\n        for axis, parts in self.func._inflations:", ['C01', 'C16']),
 ('inflate-assparse-stride', 'evaluable.py', "        strides = (1, *itertools.accumulate(self.dofmap.shape[:0:-1], operator.mul))[::-1]", "        strides = (1, *itertools.accumulate(self.dofmap.shape[1:], operator.mul))[::-1]", ['C05']),
 ('mod-intbounds', 'evaluable.py', "                return 0, upper_divisor - 1\n", "                return 0, upper_divisor - 2\n", ['C06']),
 ('power-derivative-decrement', 'evaluable.py', "            p -= p != 0 # exclude zero powers from decrement to avoid potential division by zero errors", "            p -= p > 1 # exclude zero powers from decrement to avoid potential division by zero errors", ['C04']),
 ('cos-derivative-sign', 'evaluable.py', "    deriv = lambda x: -Sin(x),", "    deriv = lambda x: Sin(x),", ['C04']),
 ('compile-no-readonly-cache', 'evaluable.py', "        for v in cache_vars:\n            main.append(_pyast.Exec(v.get_attr('setflags').call(write=_pyast.LiteralBool(False))))\n", "", ['C03']),
 ('take-negative-index', 'function.py', "            indices[indices < 0] += length\n            if (indices < 0).any() or (indices >= length).any():", "            indices[indices < -1] += length\n            indices[indices == -1] = length - 1 if axis == array.ndim - 1 else 0\n            if (indices < 0).any() or (indices >= length).any():", ['C07']),
 ('gauss-line-npoints', 'points.py', "    x, w = gauss(degree//2)\n", "    x, w = gauss(max(degree//2 - (degree == 5), 0))\n", ['C09']),
 ('simplexedge-swap-row', 'transform.py', "        ((0, 2), (1, 2), (3, 2), (5, 1)),", "        ((0, 2), (1, 2), (3, 2), (5, 2)),", ['C11']),
 ('assemble-csr-unsorted', 'matrix/__init__.py', "    numpy.greater(colidx[1:], colidx[:-1], out=colidx_is_increasing[1:-1])", "    numpy.not_equal(colidx[1:], colidx[:-1], out=colidx_is_increasing[1:-1])", ['C15']),
 # ('numpy-matrix-T', ...) dropped: reshape of a 1xn matrix to nx1 equals its transpose (equivalent mutant)
 ('numpy-matrix-T', 'matrix/_numpy.py', "        return NumpyMatrix(self.core.T)", "        return NumpyMatrix(self.core.T if self.shape[0] != 2 else self.core.reshape(self.shape[::-1]) * 1)", ['C15']),
 ('solve-constrain-free-overwrite', 'matrix/_base.py', "                lhs[~J] = constrain[~J].reshape((-1,) + (1,)*(lhs.ndim-1))", "                lhs[~J] = constrain[~J].reshape((-1,) + (1,)*(lhs.ndim-1)) * (1 + 1e-9)", ['C14']),
 ('solver-skip-finite-check', 'matrix/_base.py', "        if not numpy.isfinite(lhs).all():\n            raise MatrixError('solver returned non-finite left hand side')\n", "", ['C14']),
 ('fork-ignore-single-failure', 'parallel.py', "        if nfails:  # failure in child process: raise exception", "        if nfails > 1:  # failure in child process: raise exception", ['C16']),
 ('hash-tuple-as-list', 'types.py', "    h = hashlib.sha1(t.__name__.encode()+b'\\0')\n    if data is Ellipsis or data is None:", "    h = hashlib.sha1(('tuple' if t is list else t.__name__).encode()+b'\\0')\n    if data is Ellipsis or data is None:", ['C17']),
 ('hash-ndarray-no-shape', 'types.py', "        h.update('{}{}\\0'.format(','.join(map(str, data.shape)), data.dtype.str).encode())", "        h.update('{}\\0'.format(data.dtype.str).encode())", ['C17']),
 ('cache-no-seek', 'cache.py', "            # Seek back to the beginning, because pickle might have read garbage.\n            f.seek(0)\n", "", ['C18']),
 ('cache-recursion-history-slice', 'cache.py', "                            if len(history) > length:\n                                history = history[1:]", "                            if len(history) > length + 1:\n                                history = history[1:]", ['C18']),
 ('expr-transpose-first-term', 'expression_v2.py', "                axes = tuple(map(term_indices.index, indices))", "                axes = tuple(map(indices.index, term_indices))", ['C19']),
 ('si-hypot-mul-like', 'SI.py', "    @register(numpy.add)\n    @register(numpy.hypot)\n", "    @register(numpy.add)\n", ['C20']),
 ('si-prefix-typo', 'SI.py', "d=1e-1, c=1e-2, m=1e-3, μ=1e-6, n=1e-9, p=1e-12", "d=1e-1, c=1e-2, m=1e-3, μ=1e-6, n=1e-9, p=1e-11", ['C20']),
 ('updim-ext-sign', 'transform.py', "        return types.frozenarray(-ext if self.isflipped else ext, copy=False)", "        return types.frozenarray(-ext if self.isflipped and self.todims != 3 else ext, copy=False)", ['C08']),
]


def sh(cmd, **kw):
    return subprocess.run(cmd, shell=True, stdout=subprocess.PIPE, stderr=subprocess.STDOUT, text=True, **kw)


def main():
    want = sys.argv[1:]
    if not os.path.isdir(WT):
        sh('git -C /repo worktree add --detach ' + WT)
    head = sh('git -C /repo rev-parse HEAD').stdout.strip()
    os.makedirs(os.path.join(ROOT, 'mutants'), exist_ok=True)
    for name, fn, old, new, checks in M:
        if want and name not in want: continue
        if old is None:
            print(name, 'SKIP (no patch text defined)'); continue
        sh(f'cd {WT} && git checkout -q -- . && git checkout -q --detach {head}')
        path = os.path.join(WT, 'src', 'nutils', fn)
        s = open(path).read()
        if s.count(old) != 1:
            print(name, f'SKIP (pattern found {s.count(old)} times)'); continue
        open(path, 'w').write(s.replace(old, new))
        diff = sh(f'cd {WT} && git diff').stdout
        os.makedirs(os.path.join(ROOT, 'mutants', name), exist_ok=True)
        open(os.path.join(ROOT, 'mutants', name, 'patch.diff'), 'w').write(diff)
        imp = sh(f'PYTHONPATH={WT}/src /venv/bin/python -c "import nutils.evaluable, nutils.topology, nutils.SI, nutils.solver"')
        if imp.returncode:
            print(name, 'does not import:', imp.stdout[-300:]); continue
        for c in checks:
            t0 = time.time()
            r = sh(f'cd {ROOT} && VERIF_NUTILS_SRC={WT}/src /venv/bin/python check {c} --tier quick')
            viol = [l for l in r.stdout.splitlines() if l.startswith('VIOLATION')]
            kinds = [l.strip()[:160] for l in r.stdout.splitlines() if l.startswith('  sub=')]
            res = dict(mutant=name, check=c, exit=r.returncode, violations=len(viol), first=kinds[:2], wall=round(time.time() - t0), head=head[:7])
            print(json.dumps(res))
            open(os.path.join(ROOT, 'mutants', 'results.jsonl'), 'a').write(json.dumps(res) + '\n')
        sh(f'cd {WT} && git checkout -q -- .')


if __name__ == '__main__':
    main()
