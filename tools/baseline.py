#!/venv/bin/python
"""Run the repository's pinned test suite (guard off) and compare with BASELINE.json.

usage: tools/baseline.py [--src DIR] [-n WORKERS] [pytest args...]

Exit 0 iff every test of BASELINE.stable_pass passed.  Uses pytest-xdist (installed in /venv)
to use the 16 cores; the pinned command itself is serial and takes ~25 min.
"""
import json, os, subprocess, sys, tempfile, xml.etree.ElementTree as ET

def main():
    args = sys.argv[1:]
    src = '/repo'
    n = '16'
    if '--src' in args:
        i = args.index('--src'); src = args[i+1]; del args[i:i+2]
    if '-n' in args:
        i = args.index('-n'); n = args[i+1]; del args[i:i+2]
    base = json.load(open('/root/.vp/BASELINE.json'))
    want = set(base['stable_pass'])
    fd, junit = tempfile.mkstemp(suffix='.xml'); os.close(fd)
    env = dict(os.environ)
    env.pop('NUTILS_VERIF', None)
    if src != '/repo':
        env['PYTHONPATH'] = os.path.join(src, 'src') + os.pathsep + env.get('PYTHONPATH', '')
    cmd = ['/venv/bin/python', '-m', 'pytest', '-q', '-p', 'no:cacheprovider', '--timeout=900',
           '--continue-on-collection-errors', '-n', n, '--junitxml=' + junit] + args
    r = subprocess.run(cmd, cwd=src, env=env, stdout=subprocess.PIPE, stderr=subprocess.STDOUT, text=True)
    print('\n'.join(r.stdout.splitlines()[-3:]))
    passed = set()
    for tc in ET.parse(junit).getroot().iter('testcase'):
        if not any(c.tag in ('failure', 'error', 'skipped') for c in tc):
            passed.add(tc.get('classname') + '::' + tc.get('name'))
    os.unlink(junit)
    missing = sorted(want - passed)
    print(f'baseline stable_pass={len(want)} passed_now={len(passed & want)} missing={len(missing)}')
    for m in missing[:40]:
        print('  MISSING', m)
    sys.exit(1 if missing else 0)

if __name__ == '__main__':
    main()
