"""Immutable / Singleton / DataClass subclasses used by the C17 check (importable module so that pickle and subprocesses can find them)."""
from nutils import types


class ImmA(types.Immutable):
    def __init__(self, a, b=2, c='x'):
        self.a, self.b, self.c = a, b, c


class ImmB(types.Immutable):     # same arguments as ImmA, other class
    def __init__(self, a, b=2, c='x'):
        self.a, self.b, self.c = a, b, c


class ImmV(types.Immutable, version=3):
    def __init__(self, a, b=2, c='x'):
        self.a, self.b, self.c = a, b, c


class SingA(types.Singleton):
    def __init__(self, a, b=2, c='x'):
        self.a, self.b, self.c = a, b, c


class SingB(types.Singleton):
    def __init__(self, a, b=2, c='x'):
        self.a, self.b, self.c = a, b, c


class DataA(types.DataClass):
    a: object
    b: object = 2
    c: object = 'x'


class DataB(types.DataClass):
    a: object
    b: object = 2
    c: object = 'x'


CLASSES = dict(ImmA=ImmA, ImmB=ImmB, ImmV=ImmV, SingA=SingA, SingB=SingB, DataA=DataA, DataB=DataB)
INTERNED = ('SingA', 'SingB', 'DataA', 'DataB')
