"""Immutable / Singleton / DataClass subclasses used by the C17 check (importable module so that pickle and subprocesses can find them)."""
from nutils import types


class ImmA(types.Immutable):
    def __init__(self, a, b=2, c='x'):
        self.a, self.b, self.c = a, b, c


class ImmB(types.Immutable):     # same arguments as ImmA, other class
    def __init__(self, a, b=2, c='x'):
        self.a, self.b, self.c = a, b, c


class ImmV(types.Immutable, version=3):
    def __init__(self, a, b=2, c='x'):
        self.a, self.b, self.c = a, b, c


class SingA(types.Singleton):
    def __init__(self, a, b=2, c='x'):
        self.a, self.b, self.c = a, b, c


class SingB(types.Singleton):
    def __init__(self, a, b=2, c='x'):
        self.a, self.b, self.c = a, b, c


class DataA(types.DataClass):
    a: object
    b: object = 2
    c: object = 'x'


class DataB(types.DataClass):
    a: object
    b: object = 2
    c: object = 'x'


class ImmK(types.Immutable):     # extra keyword arguments: the order in which they are passed must not matter
    def __init__(self, a, **kw):
        self.a, self.kw = a, kw


class SingK(types.Singleton):
    def __init__(self, a, **kw):
        self.a, self.kw = a, kw


class DataE(types.DataClass):    # a container-like dataclass (cf. evaluable.Tuple): falsy when empty
    items: tuple

    def __len__(self):
        return len(self.items)


class DataF(types.DataClass):
    items: tuple

    def __len__(self):
        return len(self.items)


CLASSES = dict(ImmA=ImmA, ImmB=ImmB, ImmV=ImmV, SingA=SingA, SingB=SingB, DataA=DataA, DataB=DataB, ImmK=ImmK, SingK=SingK, DataE=DataE, DataF=DataF)
INTERNED = ('SingA', 'SingB', 'DataA', 'DataB', 'SingK', 'DataE', 'DataF')
