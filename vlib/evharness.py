"""Shared helpers for the evaluable-level properties (C01-C06, C16): step-counting wrapper around the
rewrite driver, comparison with tolerances, localisation of a faulty rewrite step."""
import numpy, contextlib, collections
from . import genexpr
from .core import Violation, Discard


class StepBound(Exception):
    pass


class RewriteTrace:
    """context manager: wraps Evaluable.simplified's per-node callable, counts steps, records (obj, retval) pairs"""

    def __init__(self, bound, record=True, prop='simplified'):
        from . import core
        self.bound = bound * core.BUDGET_SCALE
        self.steps = 0
        self.fired = 0
        self.record = record
        self.log = []
        self.rules = collections.Counter()
        self.prop = prop

    def __enter__(self):
        from nutils import evaluable
        self.desc = evaluable.Evaluable.__dict__[self.prop]
        self.orig = self.desc.func
        orig = self.orig

        def func(obj):
            self.steps += 1
            if self.steps > self.bound:
                raise StepBound(f'more than {self.bound} rewrite steps')
            r = orig(obj)
            if r is not obj:
                self.fired += 1
                if self.record and len(self.log) < 5000:
                    self.log.append((obj, r))
                self.rules[type(obj).__name__] += 1
            return r
        self.desc.func = func
        return self

    def __exit__(self, *exc):
        self.desc.func = self.orig
        return False


def clear_cache(*funcs):
    """forget cached rewrite results on everything reachable from funcs, so that a traced simplification really runs"""
    seen = set()
    stack = list(funcs)
    while stack:
        x = stack.pop()
        if id(x) in seen:
            continue
        seen.add(id(x))
        d = getattr(x, '__dict__', None)
        if d is not None:
            for k in ('simplified', '_optimized_for_numpy1', 'optimized_for_numpy'):
                d.pop(k, None)
        deps = getattr(x, 'dependencies', ())
        stack.extend(deps)


def close(got, want, tol):
    """compare a nutils result with the reference: shape, dtype kind, values"""
    got = numpy.asarray(got)
    if got.shape != want.shape:
        return f'shape {got.shape} != {want.shape}'
    kinds = {'b': 'b', 'i': 'i', 'u': 'i', 'f': 'f', 'c': 'c'}
    if kinds.get(got.dtype.kind) != kinds[want.dtype.kind]:
        return f'dtype {got.dtype} != {want.dtype}'
    if want.dtype.kind in 'bi':
        if not numpy.array_equal(got, want):
            return f'values {got.tolist()} != {want.tolist()}'
    else:
        if not numpy.isfinite(got).all():
            return f'non-finite result {got.tolist()} (reference finite: {want.tolist()})'
        if want.size and abs(got - want).max() > tol:
            return f'values differ by {abs(got - want).max():.3e} > tol {tol:.1e}: {got.tolist()} != {want.tolist()}'
    return None


def reference(prog):
    """returns (ref object, values, per-output tolerance); raises Discard when outside the property's domain"""
    ref = genexpr.Ref(prog)
    try:
        want = ref.run()
        args = ref.args
        pert = genexpr.Ref(prog).run(eps=1e-11)
        pert2 = genexpr.Ref(prog).run(eps=-1e-11)      # both directions: a comparison of two nearly equal values must not depend on which way the rounding went
    except genexpr.NonFinite as e:
        raise Discard('reference-nonfinite')
    tols = []
    for w, p, p2 in zip(want, pert, pert2):
        scale = 1 + (abs(w).max() if w.size else 0)
        if w.dtype.kind in 'bi':
            if not numpy.array_equal(w, p) or not numpy.array_equal(w, p2):
                raise Discard('kink-sensitive')
            tols.append(0)
        else:
            delta = abs(w - p).max() if w.size else 0.
            if delta > 1e-7 * scale:
                raise Discard('ill-conditioned')
            tols.append(1e-9 * scale + 1e3 * delta)
    return ref, want, args, tols


def free_loops(x):
    from nutils import evaluable
    return sorted((a for a in x.arguments if isinstance(a, evaluable._LoopIndex)), key=lambda a: str(a.loop_id))


def closed_form(x):
    """wrap an array with free loop indices into loop_concatenates so that it can be evaluated stand-alone"""
    from nutils import evaluable
    for li in free_loops(x):
        x = evaluable.loop_concatenate(evaluable._flat(x), li)
    return x


def localise(log, args, maxsteps=400):
    """first recorded rewrite step whose two sides evaluate differently (unsimplified, unoptimised)"""
    from nutils import evaluable
    for obj, ret in log[:maxsteps]:
        if not isinstance(obj, evaluable.Array) or not isinstance(ret, evaluable.Array):
            continue
        try:
            a, b = closed_form(obj), closed_form(ret)
            va = evaluable.eval_once(a, arguments=args, _simplify=False, _optimize=False)
            vb = evaluable.eval_once(b, arguments=args, _simplify=False, _optimize=False)
        except Exception:
            continue
        va, vb = numpy.asarray(va), numpy.asarray(vb)
        if va.shape != vb.shape or va.dtype.kind != vb.dtype.kind:
            return f'{type(obj).__name__}->{type(ret).__name__}', f'{obj} -> {ret}: {va.shape}/{va.dtype} vs {vb.shape}/{vb.dtype}'
        if va.dtype.kind in 'bi':
            same = numpy.array_equal(va, vb)
        else:
            same = numpy.allclose(va, vb, rtol=1e-8, atol=1e-8, equal_nan=True)
        if not same:
            deps = '+'.join(sorted({type(d).__name__ for d in obj.dependencies if isinstance(d, evaluable.Array) and d.ndim}))
            return f'{type(obj).__name__}({deps})->{type(ret).__name__}', f'{obj.asciitree()}\n  -->\n{ret.asciitree()}\n{va.tolist()} vs {vb.tolist()}'
    return None, None


class Instrument:
    """context manager: every Array node that the code generator materialises gets a run-time check of its announced
    metadata (ndim, dtype kind, constant shape entries, integer bounds), executed inside the generated code, i.e. at
    every loop iteration.  Mirrors nutils' own debug_flags.evalf branch in _BlockTreeBuilder.compile."""

    def __init__(self):
        self.failures = []
        self.nodes = 0
        self.checks = 0
        self.intnodes = 0
        self.abstract_int = 0   # int nodes with finite, non-degenerate bounds that are not constant
        self.busy = False
        self.classes = collections.Counter()

    def hook(self, meta, value):
        self.checks += 1
        v = numpy.asarray(value)
        name, ndim, kind, cshape, bounds, descr = meta
        k = {'b': 'b', 'i': 'i', 'u': 'i', 'f': 'f', 'c': 'c'}.get(v.dtype.kind, v.dtype.kind)
        if v.ndim != ndim:
            self.failures.append(('ndim', name, f'{descr}: announced ndim {ndim}, evaluated shape {v.shape}'))
        elif k != kind:
            self.failures.append(('dtype', name, f'{descr}: announced dtype kind {kind}, evaluated {v.dtype}'))
        else:
            for i, n in cshape:
                if v.shape[i] != n:
                    self.failures.append(('shape', name, f'{descr}: announced shape[{i}]={n}, evaluated shape {v.shape}'))
                    break
            if bounds is not None and v.size:
                lo, hi = bounds
                if v.min() < lo or v.max() > hi:
                    self.failures.append(('intbounds', name, f'{descr}: announced integer range [{lo},{hi}], evaluated min {v.min()} max {v.max()}'))

    def __enter__(self):
        from nutils import evaluable, _pyast
        self.cls = evaluable._BlockTreeBuilder
        self.orig = orig = self.cls.compile
        inst = self

        def compile(builder, ev_):
            if isinstance(ev_, tuple) or inst.busy:
                return orig(builder, ev_)
            known = ev_ in builder._compiled_cache
            out = orig(builder, ev_)
            if known or not isinstance(ev_, evaluable.Array) or isinstance(ev_, evaluable._LoopIndex):
                return out
            inst.busy = True
            try:
                name = type(ev_).__name__
                kind = evaluable._array_dtype_to_kind[ev_.dtype]
                cshape = tuple((i, n.__index__()) for i, n in enumerate(ev_.shape) if isinstance(n, evaluable.Constant))
                bounds = None
                if ev_.dtype == int:
                    bounds = ev_._intbounds
                    inst.intnodes += 1
                    lo, hi = bounds
                    if lo != hi and (lo != float('-inf') or hi != float('inf')) and not isinstance(ev_, evaluable.Constant):
                        inst.abstract_int += 1
                meta = (name, ev_.ndim, kind, cshape, bounds, str(ev_))
            except Exception as e:
                inst.failures.append(('metadata-raised', type(ev_).__name__, f'{type(e).__name__}: {str(e)[:200]} while reading metadata of {ev_}'))
                return out
            finally:
                inst.busy = False
            inst.nodes += 1
            inst.classes[name] += 1
            key = 'verif_meta_%d' % len(builder._globals)
            builder._globals['verif_check'] = inst.hook
            builder._globals[key] = meta
            block = builder.get_block(builder.get_block_id(ev_))
            block.exec(_pyast.Variable('verif_check').call(_pyast.Variable(key), out))
            return out
        self.cls.compile = compile
        return self

    def __exit__(self, *exc):
        self.cls.compile = self.orig
        return False
