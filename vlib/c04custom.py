"""function.Custom operations with known partial derivatives, used by the C04 `custom` sub-check (importable module so that the
classes have a stable qualified name)."""
import numpy
from nutils import function, types


class Op(function.Custom):
    """elementwise operation of two or three vectors of equal length; `kind` selects the formula"""

    def __init__(self, kind, *args):
        args = tuple(function.Array.cast(a) for a in args)
        assert all(a.shape == args[0].shape and a.ndim == 1 for a in args)
        super().__init__(args=(kind, *args), shape=args[0].shape, dtype=float)

    @types.hashable_function
    def evalf(kind, *a):
        return FORMULA[kind][0](*a)

    @types.hashable_function
    def partial_derivative(iarg, kind, *a):
        if iarg == 0:
            raise NotImplementedError      # the kind is not differentiable
        return function.diagonalize(FORMULA[kind][1][iarg - 1](*a))


# kind -> (formula on numpy arrays, partial derivatives as formulas on function arrays (or numpy arrays): same arithmetic)
FORMULA = {
    'mulsq': (lambda u, v: u * v ** 2, [lambda u, v: v ** 2, lambda u, v: 2 * u * v]),
    'sinmul': (lambda u, v: numpy.sin(u) * v, [lambda u, v: numpy.cos(u) * v, lambda u, v: numpy.sin(u) + 0 * v]),
    'lin': (lambda u, v: 2 * u - 3 * v, [lambda u, v: 2 + 0 * u, lambda u, v: -3 + 0 * v]),
    'three': (lambda u, v, w: u * v + w ** 2, [lambda u, v, w: v + 0 * w, lambda u, v, w: u + 0 * w, lambda u, v, w: 2 * w + 0 * u]),
    'quot': (lambda u, v: u / (1 + v ** 2), [lambda u, v: 1 / (1 + v ** 2) + 0 * u, lambda u, v: -2 * u * v / (1 + v ** 2) ** 2]),
}
NARGS = {'mulsq': 2, 'sinmul': 2, 'lin': 2, 'three': 3, 'quot': 2}
