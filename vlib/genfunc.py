"""G_fn: generated function-array programs over the NumPy API (DESIGN.md section 3.2).

A program is plain data: {'leaves': [...], 'nodes': [{'op', 'ch', 'p'}...]} ; node indices continue after the leaves.
The same interpreter `apply` runs on nutils function arrays (NumPy dispatch) and, per point, on plain numpy values.
Result shapes/kinds are found at generation time by running numpy on the dummy per-point values of the operands.
"""
import numpy, warnings
from hypothesis import strategies as st

KINDS = {'b': numpy.bool_, 'i': numpy.int64, 'f': numpy.float64, 'c': numpy.complex128}
FV = [-2., -1.5, -1., -.5, .5, 1., 1.5, 2., .25, 3.]
IV = [-3, -2, -1, 1, 2, 3, 4, 0]


def kind_of(a):
    return {'b': 'b', 'i': 'i', 'u': 'i', 'f': 'f', 'c': 'c'}[numpy.asarray(a).dtype.kind]


def norm64(a):
    a = numpy.asarray(a)
    return a.astype(KINDS[kind_of(a)])


class Skip(Exception):
    pass


def apply(op, args, p, np=numpy):
    """one NumPy-API call; args are nutils arrays or numpy arrays"""
    a = args[0] if args else None
    b = args[1] if len(args) > 1 else None
    if op in ('negative', 'positive', 'absolute', 'sign', 'square', 'sin', 'cos', 'arctan', 'exp', 'sinh', 'cosh', 'tanh', 'conjugate', 'real', 'imag', 'logical_not', 'arcsin_s', 'sinc'):
        if op == 'arcsin_s': return numpy.arcsin(numpy.tanh(a))
        return getattr(numpy, op)(a)
    if op == 'sqrtabs': return numpy.sqrt(numpy.absolute(a))
    if op == 'log1pabs': return numpy.log(numpy.absolute(a) + 1.)
    if op == 'reciprocal_s': return numpy.reciprocal(numpy.absolute(a) + .5)
    if op in ('add', 'subtract', 'multiply', 'hypot', 'arctan2', 'minimum', 'maximum', 'greater', 'less', 'equal', 'logical_and', 'logical_or', 'matmul', 'dot', 'vdot', 'cross'):
        if op == 'cross' and p and 'axis' in p: return numpy.cross(a, b, axis=p['axis'])
        return getattr(numpy, op)(a, b)
    if op == 'pyscalar':
        # one operand is a plain Python scalar (bool/int/float), as in `cond | False` or numpy.maximum(f, True)
        sc = {'bool': bool, 'int': int, 'float': float}[p['kind']](p['s'])
        f = p['f']
        x, y = (a, sc) if p['side'] == 0 else (sc, a)
        if f == 'op_or': return x | y
        if f == 'op_and': return x & y
        if f == 'op_add': return x + y
        if f == 'op_mul': return x * y
        if f == 'op_sub': return x - y
        return getattr(numpy, f)(x, y)
    if op == 'divide_s': return numpy.true_divide(a, numpy.absolute(b) + .5)
    if op == 'floor_divide_s': return numpy.floor_divide(a, numpy.absolute(b) + 1)
    if op == 'mod_s': return numpy.mod(a, numpy.absolute(b) + 1)
    if op == 'power_i': return numpy.power(a, p['e'])
    if op == 'op_add': return a + b
    if op == 'op_mul': return a * b
    if op == 'op_sub': return a - b
    if op == 'op_rsub': return p['s'] - a
    if op == 'op_matmul': return a @ b
    if op == 'op_pow': return a ** p['e']
    if op in ('sum', 'prod', 'any', 'all'):
        return getattr(numpy, op)(a, axis=p['axis'])
    if op == 'max': return numpy.max(a, axis=p['axis'])
    if op == 'min': return numpy.min(a, axis=p['axis'])
    if op == 'mean': return numpy.mean(a, axis=p['axis'])
    if op == 'transpose': return numpy.transpose(a, p['axes'])
    if op == 'T': return a.T
    if op == 'swapaxes': return numpy.swapaxes(a, p['a1'], p['a2'])
    if op == 'reshape': return numpy.reshape(a, p['shape'])
    if op == 'ravel': return numpy.ravel(a)
    if op == 'trace': return numpy.trace(a, offset=p.get('offset', 0), axis1=p['a1'], axis2=p['a2'])
    if op == 'diagonal': return numpy.diagonal(a, offset=p['offset'], axis1=p['a1'], axis2=p['a2'])
    if op == 'repeat': return numpy.repeat(a, p['n'], axis=p['axis'])
    if op == 'take': return numpy.take(a, numpy.array(p['indices']), axis=p['axis'])
    if op == 'getitem': return a[decode_index(p['index'])]
    if op == 'norm': return numpy.linalg.norm(a, axis=p['axis'])
    if op == 'det': return numpy.linalg.det(a)
    if op == 'concatenate': return numpy.concatenate([a, b], axis=p['axis'])
    if op == 'stack': return numpy.stack([a, b], axis=p['axis'])
    if op == 'broadcast_to': return numpy.broadcast_to(a, p['shape'])
    if op == 'choose': return numpy.choose(numpy.mod(a, 2), [b, args[2]])
    if op == 'choose_b': return numpy.choose(a, [b, args[2]])      # boolean index array
    if op == 'einsum': return numpy.einsum(p['fmt'], *args)
    if op == 'searchsorted': return numpy.searchsorted(numpy.array(p['table'], dtype=int), a)
    if op == 'minimum_c': return numpy.minimum(a, p['c'])
    if op == 'mod_c': return numpy.mod(a, p['c'] + 1)
    if op == 'interp': return numpy.interp(a, numpy.array(p['xp']), numpy.array(p['fp']), left=p.get('left'), right=p.get('right'))
    if op == 'astype_f': return a * 1.0
    if op == 'compress': return numpy.compress(numpy.array(p['mask']), a, axis=p['axis'])
    raise NotImplementedError(op)


def decode_index(ix):
    out = []
    for x in ix:
        if x == '...': out.append(Ellipsis)
        elif x is None: out.append(numpy.newaxis)
        elif isinstance(x, dict) and 's' in x: out.append(slice(*x['s']))
        elif isinstance(x, dict) and 'a' in x: out.append(numpy.array(x['a']))
        else: out.append(x)
    return tuple(out)


UNARY_F = ['negative', 'positive', 'absolute', 'square', 'sin', 'cos', 'arctan', 'exp', 'sinh', 'tanh', 'sqrtabs', 'log1pabs', 'reciprocal_s', 'arcsin_s', 'sinc', 'real', 'imag', 'conjugate']
BINARY = ['add', 'subtract', 'multiply', 'divide_s', 'hypot', 'arctan2', 'minimum', 'maximum', 'op_add', 'op_mul', 'op_sub', 'add', 'multiply']
EXACT_PRESERVING = {'pyscalar', 'negative', 'positive', 'absolute', 'square', 'add', 'subtract', 'multiply', 'op_add', 'op_mul', 'op_sub', 'op_rsub', 'minimum', 'maximum', 'sum', 'prod', 'max', 'min', 'transpose', 'T', 'swapaxes', 'reshape',
                    'ravel', 'trace', 'diagonal', 'repeat', 'take', 'getitem', 'concatenate', 'stack', 'broadcast_to', 'choose', 'choose_b', 'real', 'imag', 'conjugate', 'matmul', 'dot', 'op_matmul', 'einsum', 'power_i', 'op_pow', 'cross',
                    'floor_divide_s', 'mod_s', 'sign', 'greater', 'less', 'equal', 'logical_and', 'logical_or', 'logical_not', 'any', 'all', 'searchsorted', 'compress', 'vdot', 'minimum_c', 'mod_c'}


class Gen:
    def __init__(self, draw, leaves, maxops):
        self.draw = draw
        self.pool = []       # (dummy per-point value, exact flag, varying flag)
        for l in leaves:
            self.pool.append((l['dummy'], l.get('exact', True), l.get('varying', False)))
        self.nodes = []
        self.maxops = maxops
        self.features = set()

    def choice(self, seq): return self.draw(st.sampled_from(list(seq)))
    def integer(self, a, b): return self.draw(st.integers(a, b))

    def pick(self, pred=None):
        idx = [i for i, (v, e, var) in enumerate(self.pool) if pred is None or pred(v, e)]
        if not idx: return None
        # prefer recent nodes to grow depth
        if len(idx) > 3 and self.integer(0, 2):
            idx = idx[-3:]
        return self.choice(idx)

    def try_add(self, op, ch, p):
        vals = [self.pool[c][0] for c in ch]
        try:
            with numpy.errstate(all='ignore'), warnings.catch_warnings():
                warnings.simplefilter('ignore')
                r = norm64(apply(op, vals, p))
        except Exception:
            return False
        if r.ndim > 3 or r.size > 48 or r.size == 0:
            return False
        if r.dtype.kind in 'fc' and not numpy.isfinite(r).all():
            return False
        exact = all(self.pool[c][1] for c in ch) and op in EXACT_PRESERVING
        varying = any(self.pool[c][2] for c in ch)
        self.pool.append((r, exact, varying))
        self.nodes.append(dict(op=op, ch=list(ch), p=p))
        return True

    def step(self):
        fam = self.choice(['unary', 'binary', 'binary', 'reduce', 'shape', 'shape', 'index', 'index', 'linalg', 'logic', 'int', 'join', 'misc', 'pyscalar', 'einsum_ell'])
        isnum = lambda v, e: v.dtype.kind in 'ifc'
        isreal = lambda v, e: v.dtype.kind in 'if'
        isf = lambda v, e: v.dtype.kind == 'f'
        if fam == 'unary':
            a = self.pick(isnum)
            if a is None: return
            op = self.choice(UNARY_F)
            if self.pool[a][0].dtype.kind == 'c' and op in ('arctan', 'sqrtabs', 'log1pabs', 'reciprocal_s', 'arcsin_s', 'sinc', 'tanh', 'sinh', 'arctan'):
                op = 'conjugate'
            if self.pool[a][0].dtype.kind == 'i' and op in ('sign',): pass
            self.try_add(op, [a], {})
        elif fam == 'binary':
            a, b = self.pick(isnum), self.pick(isnum)
            if a is None or b is None: return
            op = self.choice(BINARY)
            if op in ('hypot', 'arctan2', 'minimum', 'maximum') and (self.pool[a][0].dtype.kind == 'c' or self.pool[b][0].dtype.kind == 'c'):
                op = 'add'
            if op in ('minimum', 'maximum') and not (self.pool[a][1] and self.pool[b][1]): op = 'multiply'
            if self.try_add(op, [a, b], {}) and self.pool[a][0].shape != self.pool[b][0].shape:
                self.features.add('broadcast')
        elif fam == 'reduce':
            a = self.pick(lambda v, e: v.ndim >= 1)
            if a is None: return
            v = self.pool[a][0]
            op = self.choice(['sum', 'prod', 'sum', 'any', 'all'])   # numpy.max/min/mean are not among the supported calls
            if v.dtype.kind == 'b': op = self.choice(['any', 'all', 'sum'])
            elif op in ('any', 'all'): op = 'sum'
            if op in ('max', 'min') and (v.dtype.kind == 'c' or not self.pool[a][1]): op = 'sum'
            axis = self.choice(list(range(-v.ndim, v.ndim)) + [None] * (1 if v.ndim == 1 else 0))
            if self.try_add(op, [a], dict(axis=axis)) and axis not in (-1, None): self.features.add('axis')
        elif fam == 'shape':
            a = self.pick(lambda v, e: v.ndim >= 1)
            if a is None: return
            v = self.pool[a][0]
            op = self.choice(['transpose', 'T', 'swapaxes', 'reshape', 'ravel', 'repeat', 'broadcast_to', 'diagonal', 'trace', 'diagonal'])
            if op == 'transpose':
                p = dict(axes=list(self.draw(st.permutations(list(range(v.ndim))))))
                if self.integer(0, 1):      # NumPy counts negative axes from the end
                    p['axes'] = [ax - v.ndim if self.integer(0, 1) else ax for ax in p['axes']]
            elif op == 'swapaxes':
                p = dict(a1=self.integer(-v.ndim, v.ndim - 1), a2=self.integer(-v.ndim, v.ndim - 1))
            elif op == 'reshape':
                n = v.size
                facs = [[n], [1, n], [n, 1]] + [[f, n // f] for f in range(2, n) if n % f == 0] + [[-1, 2] if n % 2 == 0 else [n]] + [[2, -1, 1] if n % 2 == 0 else [n]]
                p = dict(shape=self.choice(facs))
            elif op == 'repeat':
                p = dict(n=self.integer(1, 2), axis=self.integer(-v.ndim, v.ndim - 1))
            elif op == 'broadcast_to':
                p = dict(shape=[self.integer(1, 2)] + list(v.shape))
            elif op in ('diagonal', 'trace'):
                if v.ndim < 2: return
                a1, a2 = self.draw(st.permutations(list(range(v.ndim))))[:2]
                if self.integer(0, 2) == 0: a1 -= v.ndim
                if self.integer(0, 2) == 0: a2 -= v.ndim
                p = dict(offset=self.choice([0, 1, -1, 1, -1]), a1=a1, a2=a2)
                if p['offset'] and a1 % v.ndim > a2 % v.ndim: self.features.add('offdiagonal-reversed-axes')
            else:
                p = {}
            if self.try_add(op, [a], p): self.features.add('shape-op')
        elif fam == 'index':
            a = self.pick(lambda v, e: v.ndim >= 1)
            if a is None: return
            v = self.pool[a][0]
            if self.integer(0, 3) == 0:
                if self.integer(0, 2):
                    # prefer operands where the taken axis is not the last one and has more than one entry
                    a2 = self.pick(lambda v, e: v.ndim >= 2 and max(v.shape[:-1]) >= 2)
                    if a2 is not None: a = a2; v = self.pool[a][0]
                ax = self.integer(-v.ndim, v.ndim - 1)
                n = v.shape[ax]
                ind = [self.choice([-1, -n, n - 1, 0, self.integer(-n, n - 1), self.integer(-n, n - 1)]) for _ in range(self.integer(1, 3))] if n else []
                if self.try_add('take', [a], dict(indices=ind, axis=ax)): self.features.add('take')
                return
            ix = []
            used_adv = False
            for d in range(v.ndim):
                n = v.shape[d]
                k = self.choice(['int', 'neg', 'slice', 'slice', 'step', 'all', 'arr', 'newaxis'])
                if k == 'int': ix.append(self.integer(0, n - 1))
                elif k == 'neg': ix.append(-self.integer(1, n))
                elif k == 'slice': ix.append(dict(s=[self.choice([None, 0, 1, -1]), self.choice([None, n, -1, 1]), None]))
                elif k == 'step': ix.append(dict(s=[self.choice([None, 0, 1, -1]), self.choice([None, n, 0]), self.choice([2, -1, -2, 1])]))
                elif k == 'arr' and not used_adv:
                    ix.append(dict(a=[self.integer(-n, n - 1) for _ in range(self.integer(1, 3))])); used_adv = True
                elif k == 'newaxis': ix.append(None); ix.append(dict(s=[None, None, None]))
                else: ix.append(dict(s=[None, None, None]))
            if used_adv and any(isinstance(x, int) for x in ix):
                # NumPy treats an integer next to an index array as a second advanced index (and moves the indexed axes to the front when a slice
                # separates them); nutils indexes axis by axis (orthogonal indexing), like for several index arrays: outside the compared catalogue
                ix = [dict(s=[x, x + 1 if x != -1 else None, None]) if isinstance(x, int) else x for x in ix]
            if self.integer(0, 3) == 0 and v.ndim >= 2:
                ix = ['...'] + ix[-1:]
            if self.try_add('getitem', [a], dict(index=ix)): self.features.add('getitem')
        elif fam in ('linalg', 'einsum_ell'):
            op = self.choice(['matmul', 'dot', 'vdot', 'einsum', 'einsum', 'norm', 'det', 'cross', 'cross', 'op_matmul']) if fam == 'linalg' else 'einsum'
            a, b = self.pick(lambda v, e: v.ndim >= 1 and v.dtype.kind in 'ifc'), self.pick(lambda v, e: v.ndim >= 1 and v.dtype.kind in 'ifc')
            if a is None or b is None: return
            va, vb = self.pool[a][0], self.pool[b][0]
            if op == 'einsum' and (fam == 'einsum_ell' or self.integer(0, 1) == 0):
                # ellipses in both operands, of different rank where the pool allows it: NumPy aligns the broadcast axes to the right
                fmt = self.choice(['...i,...i->...', '...i,...i->...i', '...i,...j->...ij', 'i...,i...->...', '...,...->...', '...i,i->...'])
                a3 = self.pick(lambda v, e: v.ndim >= 3 and v.dtype.kind in 'ifc')
                if a3 is not None and self.integer(0, 2):      # two or more broadcast axes in the first operand, fewer in the second
                    a = a3
                    s3 = self.pool[a3][0].shape
                    b3 = self.pick(lambda v, e: v.dtype.kind in 'ifc' and 1 <= v.ndim < len(s3) and v.shape == s3[len(s3) - v.ndim:])      # same trailing axes: broadcasts by construction
                    if b3 is not None: b = b3
                for pair in ([a, b], [b, a]):
                    if self.pool[pair[0]][0].ndim != self.pool[pair[1]][0].ndim or self.integer(0, 1):
                        if self.try_add('einsum', pair, dict(fmt=fmt)): self.features.add('einsum-ellipsis'); break
            elif op == 'einsum':
                if va.ndim == 2 and vb.ndim >= 1 and va.shape[1] == vb.shape[0]:
                    fmt = self.choice(['ij,j...->i...', 'ij,jk->ki', 'ij,j->ij'] if vb.ndim == 2 else ['ij,j->i', 'ij,j->ji', 'ij,j->'])
                    self.try_add('einsum', [a, b], dict(fmt=fmt))
                elif va.ndim >= 1:
                    self.try_add('einsum', [a], dict(fmt=self.choice(['i...->...', '...i->...i', 'ii->i', 'ij->ji', 'i->'])))
            elif op == 'norm':
                if va.dtype.kind == 'c': return
                self.try_add('norm', [a], dict(axis=self.integer(-va.ndim, va.ndim - 1)))
            elif op == 'det':
                self.try_add('det', [a], {})
            else:
                if op == 'vdot' and (va.ndim != 1 or vb.ndim != 1): op = 'dot'
                if op == 'cross':
                    # numpy.cross(a, b, axis=k): vector axis anywhere (also negative), result axis at the same place
                    c = self.pick(lambda v, e: v.ndim >= 2 and 3 in v.shape and v.dtype.kind in 'ifc')
                    if c is not None and self.integer(0, 3):
                        sc = self.pool[c][0].shape
                        vc = self.pool[c][0]
                        d = self.pick(lambda v, e: v.shape == sc and v.dtype.kind in 'ifc' and v is not vc)
                        if d is None: d = c
                        ks = [k for k, n in enumerate(sc) if n == 3]
                        if len(ks) > 1 and self.integer(0, 2): ks = [k for k in ks if k != len(sc) - 1]
                        k = self.choice(ks) - (len(sc) if self.integer(0, 1) else 0)
                        if d is not None and self.try_add('cross', [c, d], dict(axis=k)): self.features.add('cross-axis-keyword')
                        return
                self.try_add(op, [a, b], {})
            self.features.add('linalg')
        elif fam == 'logic':
            a, b = self.pick(lambda v, e: v.dtype.kind in 'if' and e), self.pick(lambda v, e: v.dtype.kind in 'if' and e)
            if a is None or b is None: return
            op = self.choice(['greater', 'less', 'equal', 'sign'])
            if op == 'sign':
                self.try_add('sign', [a], {})
            elif self.try_add(op, [a, b], {}):
                c = len(self.pool) - 1
                if self.integer(0, 1):
                    d = self.pick(lambda v, e: v.dtype.kind == 'b')
                    if d is not None: self.try_add(self.choice(['logical_and', 'logical_or']), [c, d], {})
                else:
                    self.try_add('logical_not', [c], {})
        elif fam == 'pyscalar':
            a = self.pick(lambda v, e: v.dtype.kind in 'bif' and (e or v.dtype.kind != 'f'))
            if a is None: return
            k = self.pool[a][0].dtype.kind
            if k == 'b':
                kind, sc = 'bool', self.choice([True, False])
                f = self.choice(['add', 'multiply', 'maximum', 'minimum', 'logical_and', 'logical_or', 'equal', 'op_or', 'op_and', 'op_add', 'op_mul'])
            else:
                kind, sc = self.choice([('bool', True), ('bool', False), ('int', 2), ('int', -3)] + ([('float', -1.5)] if k == 'f' else []))
                f = self.choice(['add', 'multiply', 'subtract', 'maximum', 'minimum', 'equal', 'greater', 'op_add', 'op_mul', 'op_sub'])
            if self.try_add('pyscalar', [a], dict(kind=kind, s=sc, f=f, side=self.integer(0, 1))): self.features.add('python-scalar-operand')
        elif fam == 'int':
            a, b = self.pick(lambda v, e: v.dtype.kind == 'i'), self.pick(lambda v, e: v.dtype.kind == 'i')
            if a is None: return
            op = self.choice(['floor_divide_s', 'mod_s', 'power_i', 'op_pow', 'astype_f', 'searchsorted', 'choose'])
            if op in ('floor_divide_s', 'mod_s') and b is not None:
                self.try_add(op, [a, b], {})
            elif op in ('power_i', 'op_pow'):
                self.try_add(op, [a], dict(e=self.choice([0, 1, 2, 3])))
            elif op == 'searchsorted':
                table = self.choice([[-2, 0, 1, 3], [0], [-1, 1], []])
                if self.try_add('searchsorted', [a], dict(table=table)) and self.integer(0, 1):
                    c = len(self.pool) - 1
                    self.try_add(self.choice(['minimum_c', 'mod_c']), [c], dict(c=max(len(table) - 1, 0) if self.integer(0, 1) else len(table)))
            elif op == 'choose':
                x, y = self.pick(lambda v, e: v.dtype.kind in 'ifc'), self.pick(lambda v, e: v.dtype.kind in 'ifc')
                if x is not None and y is not None: self.try_add('choose', [a, x, y], {})
                m = self.pick(lambda v, e: v.dtype.kind == 'b')
                if m is not None and x is not None and y is not None and self.integer(0, 1): self.try_add('choose_b', [m, x, y], {})
            else:
                self.try_add('astype_f', [a], {})
        elif fam == 'join':
            a = self.pick(lambda v, e: True)
            if a is None: return
            v = self.pool[a][0]
            b = self.pick(lambda w, e: w.shape == v.shape and w.dtype.kind in 'ifc') if v.dtype.kind in 'ifc' else self.pick(lambda w, e: w.shape == v.shape and w.dtype.kind == 'b')
            if b is None: return
            op = self.choice(['stack', 'concatenate'])
            if op == 'concatenate' and v.ndim == 0: op = 'stack'
            self.try_add(op, [a, b], dict(axis=self.integer(-v.ndim - (op == 'stack'), v.ndim - (op != 'stack'))))
        else:
            a = self.pick(isf)
            if a is None: return
            op = self.choice(['interp', 'interp', 'op_rsub', 'power_i', 'compress'])
            if op == 'interp':
                if self.integer(0, 1):
                    a = self.pick(lambda v, e: v.dtype.kind == 'f' and e and v.size) or a     # exactly representable values: see below
                p = dict(xp=[-2., -1., 0., .5, 2.], fp=[1., -1., 0., 2., .5])
                v, exact, varying = self.pool[a]
                if exact and v.size and self.integer(0, 3):
                    # exactly representable operand values: knots on the values themselves, and (discontinuous) end values; the ends of the
                    # table belong to the table (NumPy: left for x < xp[0], right for x > xp[-1])
                    x0 = float(v.flat[self.integer(0, v.size - 1)])
                    k = self.choice([0, 0, 1, 2, 2])
                    p = dict(xp=[x0 + d for d in ([0., 1., 2.5], [-1.5, 0., 2.], [-3., -1., 0.])[k]], fp=[1., -1., 2.])
                    if self.integer(0, 2): p['left'] = self.choice([-7., 0., 3.5])
                    if self.integer(0, 2): p['right'] = self.choice([9., 0., -2.5])
                if self.try_add('interp', [a], p) and ('left' in p or 'right' in p): self.features.add('interp-ends')
            elif op == 'op_rsub':
                self.try_add('op_rsub', [a], dict(s=self.choice([1., 2, -.5])))
            elif op == 'compress':
                v = self.pool[a][0]
                if v.ndim < 1: return
                ax = self.integer(0, v.ndim - 1)
                mask = [bool(self.integer(0, 1)) for _ in range(v.shape[ax])]
                if any(mask): self.try_add('compress', [a], dict(mask=mask, axis=ax))
            else:
                self.try_add('power_i', [a], dict(e=self.choice([2, 3, 0])))


@st.composite
def leaf_specs(draw, nargs=2):
    """leaves: constants of the four kinds, arguments, geometry, element index, local coordinates, basis"""
    leaves = []
    for k in range(draw(st.integers(2, 4))):
        kind = draw(st.sampled_from(['f', 'f', 'i', 'c', 'b']))
        shape = draw(st.sampled_from([[], [2], [3], [2, 3], [3, 3], [1, 3], [2, 1], [2, 2], [2, 2, 3], [3, 2, 3]]))
        n = int(numpy.prod(shape)) if shape else 1
        if kind == 'b': vals = [draw(st.booleans()) for _ in range(n)]
        elif kind == 'i': vals = [draw(st.sampled_from(IV)) for _ in range(n)]
        elif kind == 'c': vals = [[draw(st.sampled_from(FV)), draw(st.sampled_from(FV))] for _ in range(n)]
        else: vals = [draw(st.sampled_from(FV)) for _ in range(n)]
        leaves.append(dict(t='const', kind=kind, shape=shape, v=vals))
    for k in range(draw(st.integers(0, nargs))):
        kind = draw(st.sampled_from(['f', 'f', 'i']))
        shape = draw(st.sampled_from([[], [2], [3], [2, 3], [3, 3]]))
        n = int(numpy.prod(shape)) if shape else 1
        vals = [draw(st.sampled_from(IV if kind == 'i' else FV)) for _ in range(n)]
        leaves.append(dict(t='arg', name='a%d' % k, kind=kind, shape=shape, v=vals))
    for t in draw(st.lists(st.sampled_from(['geom', 'geom', 'index', 'coords', 'basis']), min_size=1, max_size=3, unique=True)):
        leaves.append(dict(t=t))
    return leaves


def leaf_value(l):
    if l['t'] in ('const', 'arg'):
        if l['kind'] == 'c':
            a = numpy.array([complex(*v) for v in l['v']], dtype=complex)
        else:
            a = numpy.array(l['v'], dtype=KINDS[l['kind']])
        return a.reshape(l['shape'])
    raise KeyError(l['t'])
