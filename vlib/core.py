"""Runner shared by all property modules.

A property module (props/cXX.py) defines

    PROPERTY = 'C15'
    LEVEL    = 'exploration'                  # evidence level
    RULE     = '...'                          # how cases are generated / what is non-trivial
    BUDGET   = {'quick': 40, 'thorough': 420} # wall-clock seconds per shard (soft; hit => inconclusive)
    SHARDS   = {'quick': 8, 'thorough': 16}
    SUBS     = [Sub(...), ...]
    TRIGGERS = {'name': predicate(case, violation) -> bool}   # for known_findings.json
    ASSUMPTIONS = [...]

Every Sub has a Hypothesis strategy that produces a *plain-data* case (JSON serialisable) and a
`check(case, rec)` that interprets the case against nutils and an independent oracle.  `check` raises
`Violation` when the property is violated, `Discard` when the case is outside the property's domain
(counted), and anything else is a harness error (exit 2, never a VIOLATION).
"""
import hashlib, json, os, sys, time, traceback, subprocess, collections

ROOT = os.path.dirname(os.path.dirname(os.path.abspath(__file__)))


class Violation(Exception):
    def __init__(self, kind, detail='', **info):
        super().__init__(f'{kind}: {detail}')
        self.kind = kind
        self.detail = str(detail)
        self.info = info

    @property
    def signature(self):
        return self.kind + '|' + str(self.info.get('where', ''))


class Discard(Exception):
    def __init__(self, reason):
        super().__init__(reason)
        self.reason = reason


class CaseTimeout(BaseException):
    pass


def _alarm(signum, frame):
    raise CaseTimeout()


class Sub:
    def __init__(self, name, strategy, check, examples, weight=1.0, deterministic=True, shrink=True, timeout=120):
        self.timeout = timeout        # seconds; a case that runs this long (normal: milliseconds) is reported as kind "hang"
        self.name = name
        self.strategy = strategy      # callable(tier) -> SearchStrategy of plain data
        self.check = check            # callable(case, rec)
        self.examples = examples      # {'quick': n, 'thorough': n} per shard
        self.weight = weight
        self.deterministic = deterministic
        self.shrink = shrink


class Rec:
    """Per-case recorder handed to Sub.check."""
    def __init__(self):
        self.labels = []
        self.nontrivial = False
        self.key = None     # optional override of the distinctness key
        self.counts = {}

    def label(self, *names):
        self.labels.extend(names)

    def count(self, name, n):
        self.counts[name] = self.counts.get(name, 0) + int(n)


def jdump(obj):
    return json.dumps(obj, sort_keys=True, separators=(',', ':'), default=_default)


def _default(o):
    import numpy
    if isinstance(o, numpy.ndarray):
        return {'__nd__': o.tolist(), 'dtype': str(o.dtype)}
    if isinstance(o, numpy.generic):
        return o.item()
    if isinstance(o, complex):
        return {'__c__': [o.real, o.imag]}
    if isinstance(o, (set, frozenset)):
        return sorted(o)
    if isinstance(o, bytes):
        return {'__b__': o.hex()}
    if isinstance(o, tuple):
        return list(o)
    raise TypeError(f'not serialisable: {type(o)}')


def case_hash(case):
    return hashlib.sha1(jdump(case).encode()).hexdigest()[:16]


# ---------------------------------------------------------------------------------------------
# known findings

class Findings:
    def __init__(self, prop, triggers):
        path = os.path.join(ROOT, 'known_findings.json')
        self.entries = []
        if os.path.exists(path):
            data = json.load(open(path))
            self.entries = [e for e in data.get('findings', []) if e.get('property') == prop and e.get('status') == 'open']
        self.triggers = triggers
        for e in self.entries:
            if e['trigger'] not in triggers:
                raise RuntimeError(f'known finding {e["id"]} names unknown trigger {e["trigger"]}')

    def match(self, sub, case, v):
        for e in self.entries:
            if e.get('sub') not in (None, sub):
                continue
            kinds = e['kind'] if isinstance(e['kind'], list) else [e['kind']]
            if v.kind not in kinds:
                continue
            try:
                ok = self.triggers[e['trigger']](case, v)
            except Exception:
                ok = False
            if ok:
                return e
        return None


# ---------------------------------------------------------------------------------------------
# one shard

class ShardState:
    def __init__(self):
        self.evaluations = 0
        self.nontrivial = set()
        self.labels = collections.Counter()
        self.discards = collections.Counter()
        self.known = collections.Counter()
        self.samples = []
        self.violations = []
        self.harness_errors = []
        self.skipped_budget = 0
        self.per_sub = collections.Counter()
        self.corpus_replayed = 0
        self.notes = []

    def to_json(self):
        return dict(evaluations=self.evaluations, nontrivial=sorted(self.nontrivial), labels=dict(self.labels),
                    discards=dict(self.discards), known=dict(self.known), samples=self.samples,
                    violations=self.violations, harness_errors=self.harness_errors,
                    skipped_budget=self.skipped_budget, per_sub=dict(self.per_sub),
                    corpus_replayed=self.corpus_replayed, notes=self.notes)


def _sample_repr(sub, case, limit=1500):
    s = jdump(case)
    if len(s) > limit:
        s = s[:limit] + '...<truncated>'
    return {'sub': sub, 'case': s}


BUDGET_SCALE = 1          # multiplies the per-case wall-clock limit and the rewrite-step bounds (evharness) during a confirmation run
BUDGET_KINDS = ('hang', 'step-bound')


def _run_case(mod, sub, case, st, findings, ignored, count=True, long=False):
    """returns None if ok/discarded/known, else the Violation.
    A case that exhausts a budget (wall-clock limit, rewrite-step bound) is run once more with ten times the budget: only a case
    that exhausts that as well is reported; one that completes was slow, not non-terminating (inconclusive, counted)."""
    global BUDGET_SCALE
    rec = Rec()
    if count:
        st.evaluations += 1
        st.per_sub[sub.name] += 1
    import signal
    try:
        old = signal.signal(signal.SIGALRM, _alarm)
        limit = sub.timeout * (10 if long else 1)
        signal.setitimer(signal.ITIMER_REAL, limit)
        BUDGET_SCALE = 10 if long else 1
        try:
            try:
                sub.check(case, rec)
            finally:
                signal.setitimer(signal.ITIMER_REAL, 0)
                signal.signal(signal.SIGALRM, old)
                BUDGET_SCALE = 1
        except CaseTimeout:
            raise Violation('hang', f'case did not finish within {limit}s (normal cases take milliseconds)', where='timeout')
    except Discard as d:
        st.discards[sub.name + ':' + d.reason] += 1
        return None
    except Violation as v:
        e = findings.match(sub.name, case, v)
        if e is not None:
            st.known[e['id']] += 1
            return None
        if v.signature in ignored:
            return None
        if v.kind in BUDGET_KINDS and not long:
            v2 = _run_case(mod, sub, case, ShardState(), findings, ignored, count=False, long=True)
            if v2 is None:
                st.labels[f'{sub.name}:inconclusive-budget-exceeded-completes-with-10x'] += 1
                return None
            v = v2
        v.__traceback__ = None   # do not keep frames (and the nutils objects in them) alive
        v.__context__ = None
        return v
    for l in rec.labels:
        st.labels[sub.name + ':' + l] += 1
    for k, n in rec.counts.items():
        st.labels[sub.name + ':' + k] += n
    if rec.nontrivial:
        h = rec.key if rec.key is not None else case_hash([sub.name, case])
        if h not in st.nontrivial:
            st.nontrivial.add(h)
            if sum(1 for s in st.samples if s['sub'] == sub.name) < 2:
                st.samples.append(_sample_repr(sub.name, case))
    return None


def write_replay(mod, sub, case, v, seed, tier, tag):
    d = os.path.join(ROOT, 'out', mod.PROPERTY)
    os.makedirs(d, exist_ok=True)
    path = os.path.join(d, f'{sub.name}-{tag}-{case_hash(case)}.json')
    with open(path, 'w') as f:
        json.dump(dict(property=mod.PROPERTY, sub=sub.name, case=json.loads(jdump(case)), kind=v.kind,
                       detail=v.detail[:4000], info=json.loads(jdump({k: str(x)[:2000] for k, x in v.info.items()})),
                       seed=seed, tier=tier), f, indent=1)
    return path


def run_shard(mod, tier, seed, shard, nshards, only_sub=None):
    import hypothesis
    from hypothesis import settings, given, HealthCheck, Phase
    st = ShardState()
    findings = Findings(mod.PROPERTY, getattr(mod, 'TRIGGERS', {}))
    subs = [s for s in mod.SUBS if only_sub in (None, s.name)]
    byname = {s.name: s for s in mod.SUBS}

    # 1. replay tier (shard 0 only)
    if shard == 0:
        cdir = os.path.join(ROOT, 'corpus', mod.PROPERTY)
        if os.path.isdir(cdir):
            for fn in sorted(os.listdir(cdir)):
                if not fn.endswith('.json'):
                    continue
                path = os.path.join(cdir, fn)
                data = json.load(open(path))
                sub = byname.get(data.get('sub'))
                if sub is None or (only_sub and sub.name != only_sub):
                    continue
                st.corpus_replayed += 1
                try:
                    v = _run_case(mod, sub, data['case'], st, findings, set())
                except Exception:
                    st.harness_errors.append(dict(sub=sub.name, where='corpus:' + fn, tb=traceback.format_exc()[-3000:]))
                    continue
                if v is not None:
                    st.violations.append(dict(sub=sub.name, kind=v.kind, detail=v.detail[:1000], replay=os.path.relpath(path, ROOT), signature=v.signature))

    # 2. generated cases
    total_w = sum(s.weight for s in subs) or 1.0
    budget = mod.BUDGET[tier]
    scale = float(os.environ.get('VERIF_SCALE', '1'))
    for si, sub in enumerate(subs):
        n = int(sub.examples.get(tier, 0) * scale)
        if n <= 0:
            continue
        sub_budget = budget * scale * float(os.environ.get('VERIF_TIME_SCALE', '1')) * sub.weight / total_w
        ignored = set()
        for attempt in range(3):
            t0 = time.time()
            state = dict(fail=None, fail_t=None)

            def body(case):
                now = time.time()
                if state['fail'] is None:
                    if now - t0 > sub_budget:
                        st.skipped_budget += 1
                        return
                elif now - state['fail_t'] > (60 if tier == 'quick' else 240):
                    return
                v = _run_case(mod, sub, case, st, findings, ignored)
                if v is not None:
                    if state['fail'] is None:
                        state['fail_t'] = now
                    state['fail'] = (case, v)
                    raise v

            phases = [Phase.generate, Phase.shrink] if sub.shrink else [Phase.generate]
            test = given(sub.strategy(tier))(body)
            test = hypothesis.seed(seed * 1000 + shard * 10 + attempt)(test)
            test = settings(max_examples=n, database=None, deadline=None, phases=phases, derandomize=False,
                            report_multiple_bugs=False, suppress_health_check=list(HealthCheck),
                            print_blob=False)(test)
            try:
                test()
            except Violation:
                pass
            except hypothesis.errors.Flaky:
                if state['fail'] is None:
                    st.harness_errors.append(dict(sub=sub.name, where='flaky', tb=traceback.format_exc()[-3000:]))
                    break
            except Exception:
                if state['fail'] is None:
                    st.harness_errors.append(dict(sub=sub.name, where='generate', tb=traceback.format_exc()[-4000:]))
                    break
            if state['fail'] is None:
                break
            case, v = state['fail']
            confirmed = True
            if sub.deterministic or v.kind == 'hang':      # a wall-clock timeout is always re-tried: a loaded machine is not evidence
                confirmed = False
                for _ in range(3):   # a failure that depends on process scheduling may need more than one attempt
                    try:
                        v2 = _run_case(mod, sub, case, ShardState(), findings, set(), count=False)
                        if v2 is not None:
                            confirmed = True; break
                    except Exception:
                        confirmed = True; break
            path = write_replay(mod, sub, case, v, seed, tier, f's{shard}a{attempt}')
            if confirmed:
                st.violations.append(dict(sub=sub.name, kind=v.kind, detail=v.detail[:1000], replay=os.path.relpath(path, ROOT), signature=v.signature))
            elif v.kind == 'hang':
                # the wall-clock limit was hit once and not again: a slow machine, not a property of the code (inconclusive, counted)
                st.labels[f'{sub.name}:inconclusive-timeout-not-reproduced'] = st.labels.get(f'{sub.name}:inconclusive-timeout-not-reproduced', 0) + 1
            else:
                st.harness_errors.append(dict(sub=sub.name, where='non-reproducible failure', tb=v.detail[:2000], replay=os.path.relpath(path, ROOT)))
            ignored.add(v.signature)
            if time.time() - t0 > sub_budget:
                break
    return st


# ---------------------------------------------------------------------------------------------
# parent: spawn shards, merge, write evidence, print protocol lines

def main(mod, argv):
    import argparse
    ap = argparse.ArgumentParser()
    ap.add_argument('--tier', default=os.environ.get('VERIF_TIER', 'quick'), choices=['quick', 'thorough'])
    ap.add_argument('--replay')
    ap.add_argument('--shard', type=int)
    ap.add_argument('--nshards', type=int)
    ap.add_argument('--partial')
    ap.add_argument('--sub')
    ap.add_argument('--shards', type=int, help='override number of shards')
    args = ap.parse_args(argv)
    seed = int(os.environ.get('VERIF_SEED', '1') or 1)
    prop = mod.PROPERTY

    if args.replay:
        return replay(mod, args.replay)

    if args.shard is not None:
        try:
            st = run_shard(mod, args.tier, seed, args.shard, args.nshards, args.sub)
            out = st.to_json()
        except Exception:
            out = ShardState().to_json()
            out['harness_errors'] = [dict(sub='*', where='shard', tb=traceback.format_exc()[-4000:])]
        with open(args.partial, 'w') as f:
            f.write(jdump(out))
        return 0

    t0 = time.time()
    nshards = args.shards or int(os.environ.get('VERIF_SHARDS', '0')) or mod.SHARDS[args.tier]
    outdir = os.path.join(ROOT, 'out', prop)
    os.makedirs(outdir, exist_ok=True)
    env = dict(os.environ)
    env.setdefault('PYTHONHASHSEED', '0')
    for k in ('OMP_NUM_THREADS', 'OPENBLAS_NUM_THREADS', 'MKL_NUM_THREADS'):
        env.setdefault(k, '1')
    procs = []
    for k in range(nshards):
        partial = os.path.join(outdir, f'partial-{args.tier}-{os.getpid()}-{k}.json')   # unique per invocation: concurrent runs of one property must not mix
        if os.path.exists(partial):
            os.unlink(partial)
        cmd = [sys.executable, os.path.join(ROOT, 'check'), prop, '--tier', args.tier, '--shard', str(k),
               '--nshards', str(nshards), '--partial', partial]
        if args.sub:
            cmd += ['--sub', args.sub]
        log = open(os.path.join(outdir, f'shard-{args.tier}-{os.getpid()}-{k}.log'), 'w')
        procs.append((k, partial, subprocess.Popen(cmd, env=env, stdout=log, stderr=subprocess.STDOUT, cwd=ROOT), log))
    parts = []
    herr = []
    for k, partial, p, log in procs:
        rc = p.wait()
        log.close()
        if os.path.exists(partial):
            parts.append(json.load(open(partial)))
            os.unlink(partial)
        else:
            tail = open(log.name).read()[-2000:]
            herr.append(dict(sub='*', where=f'shard {k} exited rc={rc} without result', tb=tail))
        try:
            if rc == 0: os.unlink(log.name)
        except OSError:
            pass
    merged = ShardState()
    for p in parts:
        merged.evaluations += p['evaluations']
        merged.nontrivial.update(p['nontrivial'])
        merged.labels.update(p['labels'])
        merged.discards.update(p['discards'])
        merged.known.update(p['known'])
        merged.per_sub.update(p['per_sub'])
        merged.skipped_budget += p['skipped_budget']
        merged.corpus_replayed += p['corpus_replayed']
        merged.violations += p['violations']
        merged.harness_errors += p['harness_errors']
        for s in p['samples']:
            if sum(1 for x in merged.samples if x['sub'] == s['sub']) < 2:
                merged.samples.append(s)
    merged.harness_errors += herr
    wall = time.time() - t0

    # de-duplicate violations by signature, keep the smallest replay
    seen = {}
    for v in merged.violations:
        seen.setdefault((v['sub'], v['signature']), v)
    violations = list(seen.values())

    findings = Findings(prop, getattr(mod, 'TRIGGERS', {}))
    for e in findings.entries:
        if merged.known.get(e['id']):
            print(f'KNOWN-FINDING: property={prop} {e["what"]} (id={e["id"]}, seen {merged.known[e["id"]]}x)')
    for v in violations:
        print(f'VIOLATION property={prop} replay={os.path.join(ROOT, v["replay"])}')
        print(f'  sub={v["sub"]} kind={v["kind"]} {v["detail"][:300]}')
    for h in merged.harness_errors[:5]:
        print(f'HARNESS-ERROR property={prop} sub={h["sub"]} where={h["where"]}\n{h["tb"][-1500:]}', file=sys.stderr)

    cov = dict(evaluations=merged.evaluations, distinct_nontrivial=len(merged.nontrivial), rule=mod.RULE,
               samples=merged.samples[:12] or [{'note': 'no non-trivial sample recorded'}],
               per_sub=dict(merged.per_sub), labels=dict(sorted(merged.labels.items())),
               discards=dict(merged.discards), known_finding_hits=dict(merged.known),
               corpus_replayed=merged.corpus_replayed, cases_skipped_by_time_budget=merged.skipped_budget,
               shards=nshards, harness_errors=len(merged.harness_errors))
    extra = getattr(mod, 'extra_coverage', None)
    if extra:
        cov.update(extra(merged))
    ev = dict(property_id=prop, tier=args.tier, seed=seed, level=mod.LEVEL, coverage=cov,
              assumptions=list(getattr(mod, 'ASSUMPTIONS', [])), wall_s=round(wall, 2), violations=len(violations))
    # evidence describes /repo only: a run against a scratch source tree (VERIF_NUTILS_SRC, mutation testing) or of a single sub-check writes under out/
    evdir = os.path.join(ROOT, 'evidence') if not os.environ.get('VERIF_NUTILS_SRC') and not args.sub else os.path.join(ROOT, 'out', prop)
    os.makedirs(evdir, exist_ok=True)
    with open(os.path.join(evdir, prop + ('.json' if evdir.endswith('evidence') else '-evidence-scratch.json')), 'w') as f:
        json.dump(ev, f, indent=1, sort_keys=True)
    print(f'{prop} tier={args.tier} seed={seed} evaluations={merged.evaluations} distinct_nontrivial={len(merged.nontrivial)} '
          f'known_hits={sum(merged.known.values())} discards={sum(merged.discards.values())} skipped={merged.skipped_budget} '
          f'violations={len(violations)} harness_errors={len(merged.harness_errors)} wall={wall:.1f}s')
    if merged.harness_errors:
        return 2 if not violations else 1
    return 1 if violations else 0


def replay(mod, path):
    data = json.load(open(path))
    byname = {s.name: s for s in mod.SUBS}
    sub = byname[data['sub']]
    findings = Findings(mod.PROPERTY, getattr(mod, 'TRIGGERS', {}))
    st = ShardState()
    v = _run_case(mod, sub, data['case'], st, findings, set())
    if v is not None:
        print(f'VIOLATION property={mod.PROPERTY} replay={os.path.abspath(path)}')
        print(f'  sub={sub.name} kind={v.kind} {v.detail[:2000]}')
        for k, x in v.info.items():
            print(f'  {k}: {str(x)[:2000]}')
        return 1
    for fid, n in st.known.items():
        e = [e for e in findings.entries if e['id'] == fid][0]
        print(f'KNOWN-FINDING: property={mod.PROPERTY} {e["what"]} (id={fid})')
    if st.discards:
        print('discarded:', dict(st.discards))
    print('replay ok')
    return 0
