"""G_ev: generated evaluable programs with an independent numpy meaning (DESIGN.md section 3.1).

A program is plain data:
    {'nodes': [node, ...], 'outs': [idx, ...], 'args': {name: {'dtype','shape','value', ['range']}}}
    node = {'op': str, 'ch': [idx...], 'p': {...}, 't': [dtype, shape]}     (children precede parents)

`build(prog)` constructs nutils evaluables through the constructors that function.py and the tests use;
`Ref(prog).run(args)` evaluates the same program with numpy only (never imports nutils).
"""
import numpy, math, itertools
from hypothesis import strategies as st

DT = {'bool': bool, 'int': int, 'float': float, 'complex': complex}
NPDT = {'bool': numpy.bool_, 'int': numpy.int64, 'float': numpy.float64, 'complex': numpy.complex128}
FVALS = [-2., -1.5, -1., -.75, -.5, -.25, .25, .5, .75, 1., 1.25, 1.5, 2., 0., 3.]
IVALS = [-3, -2, -1, 0, 1, 2, 3, 4]

UNARY_F = ['sin', 'cos', 'tan', 'arctan', 'exp', 'sinh', 'cosh', 'tanh', 'sinc', 'log1pabs', 'arcsin_t', 'arccos_t', 'arctanh_t', 'sqrtabs', 'recip_s']
UNARY_C = ['sin', 'cos', 'exp', 'sinh', 'cosh', 'tanh', 'arctan_h']


class Budget(Exception):
    pass


class Gen:
    """top-down typed generator; all randomness through `draw`"""

    def __init__(self, draw, maxnodes=12, maxdepth=5, maxloops=2, ops=None, dtypes=('bool', 'int', 'float', 'complex'),
                 allow_args=True, maxlen=4, family_bias=0.4, differentiable=False, arg_bias=1):
        self.arg_bias = arg_bias
        self.draw = draw
        self.nodes = []
        self.args = {}
        self.maxnodes = maxnodes
        self.maxdepth = maxdepth
        self.maxloops = maxloops
        self.nloops = 0
        self.active = []      # stack of (name, length)
        self.free = []        # per node: frozenset of free loops (name, length)
        self.allow_args = allow_args
        self.maxlen = maxlen
        self.only_ops = ops
        self.dtypes = dtypes
        self.family_bias = family_bias
        self.differentiable = differentiable

    # -- helpers
    def integers(self, a, b):
        return self.draw(st.integers(a, b))

    def choice(self, seq):
        return self.draw(st.sampled_from(list(seq)))

    def boolean(self, p=0.5):
        return self.draw(st.integers(0, 999)) < int(1000 * p)

    def emit(self, op, ch, p, dtype, shape):
        free = frozenset().union(*(self.free[c] for c in ch)) if ch else frozenset()
        if op == 'loopidx':
            free = frozenset({(p['loop'], p['length'])})
        elif op == 'elemwise':
            free = frozenset({(p['loop'], p['length'])})
        elif op in ('loopsum', 'loopcat'):
            free = free - {(p['loop'], p['length'])}
        self.nodes.append(dict(op=op, ch=list(ch), p=p, t=[dtype, list(shape)]))
        self.free.append(free)
        return len(self.nodes) - 1

    def length(self, lo=0):
        # lengths 0 and 1 matter for rewrites; bias towards 2..3
        return self.choice([l for l in [0, 1, 1, 2, 2, 2, 3, 3, 4] if lo <= l <= self.maxlen])

    # -- leaves
    def const_values(self, dtype, shape):
        n = int(numpy.prod(shape)) if shape else 1
        kind = self.choice(['arb', 'arb', 'uniform', 'zero', 'one', 'axis-uniform', 'arange'])
        pool = {'bool': [False, True], 'int': IVALS, 'float': FVALS, 'complex': FVALS}[dtype]
        def one():
            v = self.choice(pool)
            if dtype == 'complex':
                return [v, self.choice(pool)]
            return v
        if kind == 'zero':
            vals = [pool[0] if dtype == 'bool' else (0 if dtype != 'complex' else [0., 0.])] * n
        elif kind == 'one':
            vals = [True if dtype == 'bool' else (1 if dtype != 'complex' else [1., 0.])] * n
        elif kind == 'uniform':
            vals = [one()] * n
        elif kind == 'arange' and dtype in ('int', 'float'):
            off = self.integers(-2, 2)
            vals = [(off + i) if dtype == 'int' else float(off + i) / 2 for i in range(n)]
        elif kind == 'axis-uniform' and len(shape) >= 2 and n:
            ax = self.integers(0, len(shape) - 1)
            sub = list(shape); sub[ax] = 1
            base = [one() for _ in range(int(numpy.prod(sub)))]
            arr = numpy.empty(sub, dtype=object)
            arr.ravel()[:] = [tuple(b) if isinstance(b, list) else b for b in base] if dtype == 'complex' else base
            arr = numpy.broadcast_to(arr, shape)
            vals = [list(v) if isinstance(v, tuple) else v for v in arr.ravel().tolist()]
        else:
            vals = [one() for _ in range(n)]
        return vals

    def leaf(self, dtype, shape):
        kinds = ['const', 'const']
        if self.allow_args and dtype in ('float', 'int', 'complex') and not (self.differentiable and dtype == 'int'):
            kinds += ['arg', 'arg'] * self.arg_bias
        if self.differentiable and dtype in ('float', 'complex'):
            kinds += ['arg', 'arg']
        if not self.differentiable:
            kinds += ['zeros', 'ones'] if self.boolean(0.3) else []
        if dtype == 'int' and len(shape) == 0 and self.active:
            kinds += ['loopidx'] * 4
        if dtype == 'int' and len(shape) == 1:
            kinds += ['range']
        if self.active and self.boolean(0.5):
            kinds += ['elemwise'] * 3
        kind = self.choice(kinds)
        if self.differentiable and dtype == 'float' and not any(a['dtype'] == 'float' for a in self.args.values()):
            kind = 'arg'
        if kind == 'arg':
            same = [k for k, a in self.args.items() if a['dtype'] == dtype and a['shape'] == list(shape) and 'range' not in a]
            if same and self.boolean(0.6):
                name = self.choice(same)
            else:
                name = 'a%d' % len(self.args)
                n = int(numpy.prod(shape)) if shape else 1
                pool = IVALS if dtype == 'int' else FVALS
                if dtype == 'complex':
                    val = [[self.choice(pool), self.choice(pool)] for _ in range(n)]
                else:
                    val = [self.choice(pool) for _ in range(n)]
                self.args[name] = dict(dtype=dtype, shape=list(shape), value=val)
            return self.emit('arg', [], dict(name=name), dtype, shape)
        if kind == 'zeros':
            return self.emit('zeros', [], {}, dtype, shape)
        if kind == 'ones':
            return self.emit('ones', [], {}, dtype, shape)
        if kind == 'loopidx':
            name, length = self.choice(self.active)
            return self.emit('loopidx', [], dict(loop=name, length=length), dtype, shape)
        if kind == 'range':
            return self.emit('range', [], dict(offset=self.integers(-2, 3)), dtype, shape)
        if kind == 'elemwise':
            name, length = self.choice([a for a in self.active if a[1] >= 1] or [(None, 0)])
            if not length:
                return self.emit('const', [], dict(v=self.const_values(dtype, shape)), dtype, shape)
            tables = [self.const_values(dtype, shape) for _ in range(length)]
            if length >= 2 and self.boolean(0.3):
                tables[1] = tables[0]
            return self.emit('elemwise', [], dict(loop=name, length=length, tables=tables), dtype, shape)
        return self.emit('const', [], dict(v=self.const_values(dtype, shape)), dtype, shape)

    # -- recursive generation
    def candidates(self, dtype, shape):
        nd = len(shape)
        ops = []
        if dtype in ('int', 'float', 'complex'):
            ops += ['add', 'mul', 'sub', 'neg', 'add', 'mul']
        if dtype == 'bool':
            ops += ['add', 'mul', 'not', 'greater', 'less', 'equal', 'greater', 'less']
        if dtype in ('float', 'complex'):
            ops += ['div', 'powc', 'powc', 'unary', 'unary', 'cast']
        if dtype == 'float':
            ops += ['pow', 'abs', 'min', 'max', 'mod', 'real', 'imag', 'arctan2', 'abs_c', 'sign', 'polyval']
            if nd >= 1 and 1 <= shape[-1] <= 4:
                ops += ['legendre']
        if dtype == 'int':
            ops += ['powi', 'abs', 'sign', 'min', 'max', 'mod', 'floordiv', 'cast', 'normdim', 'searchsorted']
            if 1 <= nd <= 3:
                ops += ['ravelindex']
        if dtype == 'complex':
            ops += ['conj']
        ops += ['sum', 'product', 'get', 'get', 'choose', 'guard']
        if nd >= 1:
            ops += ['insertaxis', 'insertaxis', 'takediag', 'take', 'take', 'inflate', 'inflate', 'inflate', 'ravel', 'stack', 'concat']
            if any(shape):
                ops += []
        if nd >= 2:
            ops += ['transpose', 'transpose', 'unravel']
            if any(shape[i] == shape[j] for i in range(nd) for j in range(i + 1, nd)):
                ops += ['diagonalize'] * 3
        if dtype in ('int', 'float', 'complex'):
            ops += ['dot', 'loopsum', 'loopsum']
        if dtype in ('float', 'complex') and nd <= 2:
            ops += ['det']
            if nd >= 2 and shape[-1] == shape[-2] and 1 <= shape[-1] <= 3:
                ops += ['inv', 'inv']
        if nd >= 1:
            ops += ['loopcat', 'loopcat']
        if self.differentiable:
            bad = {'abs', 'min', 'max', 'mod', 'sign', 'floordiv', 'abs_c', 'greater', 'less', 'equal', 'not', 'guard'}      # arctan2 is smooth away from its cut: kept, with a margin in the reference
            ops = [o for o in ops if o not in bad]
        if self.only_ops is not None:
            ops = [o for o in ops if o in self.only_ops]
        return ops

    FAMILY = {
        'powc': ['powc', 'pow', 'mul', 'abs'], 'pow': ['powc', 'pow'],
        'take': ['inflate', 'diagonalize', 'insertaxis', 'transpose', 'ravel', 'loopcat', 'take', 'mul', 'add'],
        'get': ['inflate', 'diagonalize', 'insertaxis', 'transpose', 'ravel', 'loopcat', 'mul', 'add', 'choose'],
        'takediag': ['inflate', 'diagonalize', 'insertaxis', 'transpose', 'ravel', 'mul', 'add', 'choose', 'unravel'],
        'sum': ['inflate', 'diagonalize', 'insertaxis', 'transpose', 'ravel', 'mul', 'add', 'loopsum', 'unravel', 'take'],
        'product': ['inflate', 'diagonalize', 'insertaxis', 'transpose', 'ravel', 'mul', 'powc'],
        'mul': ['inflate', 'diagonalize', 'loopsum', 'insertaxis', 'mul', 'add', 'powc', 'transpose'],
        'add': ['inflate', 'diagonalize', 'loopsum', 'insertaxis', 'mul', 'add', 'transpose', 'neg'],
        'cast': ['inflate', 'insertaxis', 'transpose', 'add', 'mul', 'loopsum', 'take'],
        'unravel': ['ravel', 'inflate', 'insertaxis', 'transpose'], 'ravel': ['unravel', 'inflate', 'diagonalize', 'insertaxis', 'transpose'],
        'transpose': ['transpose', 'inflate', 'diagonalize', 'insertaxis', 'ravel', 'unravel'],
        'inflate': ['inflate', 'diagonalize', 'take', 'insertaxis', 'transpose', 'mul', 'add'],
        'diagonalize': ['inflate', 'diagonalize', 'insertaxis', 'transpose'],
        'loopsum': ['inflate', 'mul', 'add', 'take', 'get', 'loopsum', 'insertaxis', 'loopcat'],
        'loopcat': ['inflate', 'mul', 'add', 'take', 'get', 'loopsum', 'insertaxis', 'loopcat'],
        'sign': ['inflate', 'mul', 'powc'], 'abs': ['inflate', 'mul', 'powc', 'neg'],
        'det': ['diagonalize', 'inflate', 'insertaxis', 'transpose'], 'inv': ['diagonalize', 'add', 'transpose'],
    }

    def gen(self, dtype, shape, depth, parent=None):
        shape = list(shape)
        if len(self.nodes) >= self.maxnodes or depth <= 0 or (depth < self.maxdepth and self.boolean(0.05)):
            return self.reuse_or_leaf(dtype, shape)
        if depth < self.maxdepth and self.boolean(0.15):
            r = self.try_reuse(dtype, shape)
            if r is not None:
                return r
        cands = self.candidates(dtype, shape)
        if not cands:
            return self.leaf(dtype, shape)
        fam = [o for o in self.FAMILY.get(parent, []) if o in cands]
        if fam and self.boolean(self.family_bias):
            op = self.choice(fam)
        else:
            op = self.choice(cands)
        r = getattr(self, 'g_' + op)(dtype, shape, depth - 1)
        if r is None:
            return self.leaf(dtype, shape)
        return r

    def try_reuse(self, dtype, shape):
        act = set(self.active)
        pool = [i for i, n in enumerate(self.nodes) if n['t'] == [dtype, list(shape)] and self.free[i] <= act]
        if pool:
            return self.choice(pool)

    def reuse_or_leaf(self, dtype, shape):
        if self.boolean(0.3):
            r = self.try_reuse(dtype, shape)
            if r is not None:
                return r
        return self.leaf(dtype, shape)

    # elementwise
    TWIN_OPS = ('insertaxis', 'inflate', 'transpose', 'diagonalize', 'take', 'ravel', 'unravel', 'loopsum', 'get', 'cast')

    def twin(self, idx, depth):
        """a second operand with the same outer structure (operator and parameters) as node idx but fresh sub-operands:
        binary rules (unalign, _inflate merging, Einsum absorption, ...) only fire when both operands are structured alike"""
        n = self.nodes[idx]
        if n['op'] not in self.TWIN_OPS or n['op'] in ('loopsum',):
            return None
        ch = []
        for c in n['ch']:
            cn = self.nodes[c]
            if cn['op'] in ('idxarg', 'loopidx'):
                ch.append(c)
            else:
                ch.append(self.gen(cn['t'][0], cn['t'][1], depth, n['op']))
        return self.emit(n['op'], ch, dict(n['p']), n['t'][0], n['t'][1])

    def _nary(self, op, dtype, shape, depth, n=2, dtypes=None):
        ch = [self.gen((dtypes[0] if dtypes else dtype), shape, depth, op)]
        for i in range(1, n):
            t = None
            if dtypes is None and self.boolean(0.3) and self.free[ch[0]] <= set(self.active):
                t = self.twin(ch[0], depth)
            if t is None and dtypes is None and op in ('add', 'sub', 'mul') and dtype != 'bool' and self.boolean(0.2) and self.free[ch[0]] <= set(self.active):
                t = self.cofactor(ch[0], dtype, shape, depth)
            ch.append(t if t is not None else self.gen((dtypes[i] if dtypes else dtype), shape, depth, op))
        if n == 2 and self.boolean(0.3):
            ch = ch[::-1] if op in ('add', 'mul') else ch
        return self.emit(op, ch, {}, dtype, shape)

    def cofactor(self, idx, dtype, shape, depth):
        """a second operand that shares factors with node idx (x, -x, x*z, (-x)*z, z*(-x)*w, reordered products): the sum/product
        rules that match common factors (Multiply._add, Power merging) only fire on operands built from shared subterms"""
        x = idx
        n = self.nodes[idx]
        if n['op'] == 'mul' and self.boolean(0.5):
            x = self.emit('mul', n['ch'][::-1], {}, dtype, shape)
        if self.boolean(0.5):
            x = self.emit('neg', [x], {}, dtype, shape)
        for _ in range(self.choice([0, 1, 1, 1, 2])):
            z = self.gen(dtype, shape, min(depth, 1), 'mul')
            x = self.emit('mul', [x, z] if self.boolean(0.6) else [z, x], {}, dtype, shape)
        return x

    def g_add(self, dtype, shape, depth): return self._nary('add', dtype, shape, depth)

    def g_mul(self, dtype, shape, depth):
        if len(shape) >= 2 and dtype != 'bool' and self.boolean(0.3):
            return self.outer_product(dtype, shape, depth)
        return self._nary('mul', dtype, shape, depth)

    def outer_product(self, dtype, shape, depth):
        """product of factors that live on disjoint axes (inserted elsewhere), optionally coupled by a full factor, in every association
        order: the sparse expansion of a product clusters its factors by the axes they really occupy"""
        nd = len(shape)
        k = self.integers(1, nd - 1)
        def on_axes(keep):
            # an operand with real axes `keep`, the others inserted
            node = self.gen(dtype, [shape[i] for i in keep], min(depth, 2), 'insertaxis')
            present = list(keep)
            for i in range(nd):
                if i not in keep:
                    pos = sum(1 for j in present if j < i)
                    node = self.emit('insertaxis', [node], dict(axis=pos), dtype, [shape[j] for j in sorted(present + [i])])
                    present.append(i)
            return node
        axes = list(self.draw(st.permutations(list(range(nd)))))
        a = on_axes(sorted(axes[:k])); b = on_axes(sorted(axes[k:]))
        factors = [a, b]
        if self.boolean(0.85):
            factors.append(self.gen(dtype, shape, min(depth, 2), 'mul'))
        order = list(self.draw(st.permutations(factors))) if self.boolean(0.6) else factors      # the disjoint factors first and the coupling one last is the order in which clusters have to be bridged
        node = order[0]
        left = self.boolean(0.7)
        for f in order[1:]:
            node = self.emit('mul', [node, f] if left else [f, node], {}, dtype, shape)
        return node
    def g_sub(self, dtype, shape, depth): return self._nary('sub', dtype, shape, depth)
    def g_neg(self, dtype, shape, depth): return self._nary('neg', dtype, shape, depth, 1)
    def g_not(self, dtype, shape, depth): return self._nary('not', dtype, shape, depth, 1)
    def g_div(self, dtype, shape, depth): return self._nary('div', dtype, shape, depth)
    def g_conj(self, dtype, shape, depth): return self._nary('conj', dtype, shape, depth, 1)
    def g_min(self, dtype, shape, depth): return self._nary('min', dtype, shape, depth)
    def g_max(self, dtype, shape, depth): return self._nary('max', dtype, shape, depth)
    def g_mod(self, dtype, shape, depth): return self._nary('mod', dtype, shape, depth)
    def g_floordiv(self, dtype, shape, depth): return self._nary('floordiv', dtype, shape, depth)
    def g_arctan2(self, dtype, shape, depth): return self._nary('arctan2', dtype, shape, depth)
    def g_pow(self, dtype, shape, depth): return self._nary('pow', dtype, shape, depth)
    def g_guard(self, dtype, shape, depth): return self._nary('guard', dtype, shape, depth, 1)

    def g_abs(self, dtype, shape, depth): return self._nary('abs', dtype, shape, depth, 1)
    def g_sign(self, dtype, shape, depth): return self._nary('sign', dtype, shape, depth, 1)

    def g_abs_c(self, dtype, shape, depth):
        if 'complex' not in self.dtypes: return None
        return self.emit('abs', [self.gen('complex', shape, depth, 'abs')], {}, dtype, shape)

    def g_real(self, dtype, shape, depth):
        if 'complex' not in self.dtypes: return None
        return self.emit('real', [self.gen('complex', shape, depth, 'real')], {}, dtype, shape)

    def g_imag(self, dtype, shape, depth):
        if 'complex' not in self.dtypes: return None
        return self.emit('imag', [self.gen('complex', shape, depth, 'imag')], {}, dtype, shape)

    def _cmp(self, op, dtype, shape, depth):
        t = self.choice([d for d in ('int', 'float', 'int') if d in self.dtypes] or ['int'])
        ch = [self.gen(t, shape, depth, op) for _ in range(2)]
        return self.emit(op, ch, {}, dtype, shape)

    def g_greater(self, dtype, shape, depth): return self._cmp('greater', dtype, shape, depth)
    def g_less(self, dtype, shape, depth): return self._cmp('less', dtype, shape, depth)
    def g_equal(self, dtype, shape, depth): return self._cmp('equal', dtype, shape, depth)

    def g_powc(self, dtype, shape, depth):
        e = self.choice([2., 2., 3., 4., .5, .25, -1., -2., 1., 0., 1.5, 6.])
        return self.emit('powc', [self.gen(dtype, shape, depth, 'powc')], dict(e=e), dtype, shape)

    def g_powi(self, dtype, shape, depth):
        return self.emit('powi', [self.gen(dtype, shape, depth, 'powc')], dict(e=self.choice([0, 1, 2, 2, 3])), dtype, shape)

    def g_unary(self, dtype, shape, depth):
        f = self.choice(UNARY_F if dtype == 'float' else UNARY_C)
        return self.emit('unary', [self.gen(dtype, shape, depth, 'unary')], dict(f=f), dtype, shape)

    def g_cast(self, dtype, shape, depth):
        src = {'int': ['bool'], 'float': ['int', 'bool', 'int'], 'complex': ['float', 'int', 'float']}[dtype]
        src = [s for s in src if s in self.dtypes]
        if not src: return None
        s = self.choice(src)
        return self.emit('cast', [self.gen(s, shape, depth, 'cast')], {}, dtype, shape)

    # structural
    def g_insertaxis(self, dtype, shape, depth):
        k = self.integers(0, len(shape) - 1)
        return self.emit('insertaxis', [self.gen(dtype, shape[:k] + shape[k + 1:], depth, 'insertaxis')], dict(axis=k), dtype, shape)

    def g_transpose(self, dtype, shape, depth):
        nd = len(shape)
        perm = self.draw(st.permutations(list(range(nd))))
        if list(perm) == list(range(nd)):
            perm = list(range(nd)); perm[0], perm[-1] = perm[-1], perm[0]
        cs = [None] * nd
        for i, p in enumerate(perm):
            cs[p] = shape[i]
        return self.emit('transpose', [self.gen(dtype, cs, depth, 'transpose')], dict(perm=list(perm)), dtype, shape)

    def _reduce(self, op, dtype, shape, depth):
        if len(shape) >= 4: return None
        k = self.integers(0, len(shape))
        n = self.length()
        if op == 'product' and dtype != 'bool':
            n = min(n, 3)
        if op == 'sum' and dtype != 'bool' and n >= 1 and self.boolean(0.12):
            # contraction over an axis along which every factor of a product is merely inserted (rules that absorb InsertAxis into an einsum)
            cs = shape[:k] + [n] + shape[k:]
            f = [self.emit('insertaxis', [self.gen(dtype, shape, min(depth, 2), 'insertaxis')], dict(axis=k), dtype, cs) for _ in range(self.choice([2, 2, 3]))]
            node = f[0]
            for g in f[1:]:
                node = self.emit('mul', [node, g], {}, dtype, cs)
            return self.emit(op, [node], dict(axis=k), dtype, shape)
        return self.emit(op, [self.gen(dtype, shape[:k] + [n] + shape[k:], depth, op)], dict(axis=k), dtype, shape)

    def g_sum(self, dtype, shape, depth): return self._reduce('sum', dtype, shape, depth)
    def g_product(self, dtype, shape, depth): return self._reduce('product', dtype, shape, depth)

    def g_takediag(self, dtype, shape, depth):
        if len(shape) >= 4: return None
        a = self.integers(0, len(shape) - 1)        # axis of the result carrying the diagonal
        # child has one more axis; choose position rm of removed axis in child, and position ax of kept axis in child
        nd = len(shape) + 1
        rm = self.integers(0, nd - 1)
        cs = list(shape)
        cs.insert(rm, shape[a])
        # position of kept axis in child: result axis a -> child axis a + (a >= rm)
        ax = a + (a >= rm)
        return self.emit('takediag', [self.gen(dtype, cs, depth, 'takediag')], dict(axis=ax, rmaxis=rm), dtype, shape)

    def g_diagonalize(self, dtype, shape, depth):
        nd = len(shape)
        pairs = [(i, j) for i in range(nd) for j in range(nd) if i != j and shape[i] == shape[j]]
        i, new = self.choice(pairs)
        cs = shape[:new] + shape[new + 1:]
        ax = i - (i > new)   # axis in child
        return self.emit('diagonalize', [self.gen(dtype, cs, depth, 'diagonalize')], dict(axis=ax, newaxis=new), dtype, shape)

    def g_get(self, dtype, shape, depth):
        if len(shape) >= 4: return None
        k = self.integers(0, len(shape))
        loopitem = None
        if self.active and self.boolean(0.6):
            name, length = self.choice(self.active)
            if length >= 1:
                loopitem = (name, length)
        if loopitem:
            n = loopitem[1]
            idx = self.emit('loopidx', [], dict(loop=loopitem[0], length=n), 'int', [])
            c = self.gen(dtype, shape[:k] + [n] + shape[k:], depth, 'get')
            return self.emit('getidx', [c, idx], dict(axis=k), dtype, shape)
        n = self.length(1)
        item = self.integers(-n, n - 1)
        return self.emit('get', [self.gen(dtype, shape[:k] + [n] + shape[k:], depth, 'get')], dict(axis=k, item=item), dtype, shape)

    def index_arg(self, m, n):
        """int argument of shape (m,) with values in [0,n), bound to one InRange length"""
        name = 'i%d' % len(self.args)
        self.args[name] = dict(dtype='int', shape=[m], value=[self.integers(0, n - 1) for _ in range(m)], range=n)
        return self.emit('idxarg', [], dict(name=name, n=n), 'int', [m])

    def g_take(self, dtype, shape, depth):
        k = self.integers(0, len(shape) - 1)
        m = shape[k]
        n = self.length(1 if m else 0)
        kinds = ['const', 'const', 'slice']
        if m <= n: kinds += ['mask']
        if n >= 1 and self.allow_args and not self.differentiable: kinds += ['arg']
        if n >= 1 and self.allow_args and self.differentiable and self.boolean(0.3): kinds += ['arg']
        kind = self.choice(kinds)
        p = dict(axis=k, kind=kind)
        ch = []
        if kind == 'slice':
            if m > n:
                n = m
            p['start'] = self.integers(0, n - m)
        elif kind == 'mask':
            pos = self.draw(st.permutations(list(range(n))))[:m]
            p['mask'] = [i in pos for i in range(n)]
        elif kind == 'arg':
            ch = [self.index_arg(m, n)]
        else:
            if n == 0:
                n = 1
            p['index'] = [self.integers(-n, n - 1) for _ in range(m)]
        c = self.gen(dtype, shape[:k] + [n] + shape[k + 1:], depth, 'take')
        return self.emit('take', [c] + ch, p, dtype, shape)

    def g_inflate(self, dtype, shape, depth):
        k = self.integers(0, len(shape) - 1)
        n = shape[k]
        kinds = []
        if n >= 1:
            kinds += ['scalar', 'const', 'const', 'const']
            if self.allow_args and self.boolean(0.4): kinds += ['arg']
            if len(shape) <= 3: kinds += ['block']
            if self.active: kinds += ['loop', 'loop']
        else:
            kinds += ['empty']
        kind = self.choice(kinds)
        p = dict(axis=k, kind=kind)
        ch = []
        if kind == 'scalar':
            p['dof'] = self.integers(0, n - 1)
            cs = shape[:k] + shape[k + 1:]
        elif kind == 'loop':
            cand = [(nm, L) for nm, L in self.active if L <= n]
            if not cand:
                p['kind'] = 'scalar'; p['dof'] = self.integers(0, n - 1)
            else:
                nm, L = self.choice(cand)
                ch = [self.emit('loopidx', [], dict(loop=nm, length=L), 'int', [])]
                p['offset'] = self.integers(0, n - L)
            cs = shape[:k] + shape[k + 1:]
        elif kind == 'empty':
            p['kind'] = 'const'; p['dofmap'] = []
            cs = shape[:k] + [0] + shape[k + 1:]
        elif kind == 'block':
            m1, m2 = self.length(1), self.length(1)
            m1, m2 = min(m1, 3), min(m2, 2)
            if len(shape) <= 2 and self.boolean(0.35):
                # three-dimensional dofmap with unequal extents (flat-index strides differ per axis)
                m3 = 2 if m2 != 2 else 3
                p['dofmap'] = [[[self.integers(0, n - 1) for _ in range(m3)] for _ in range(m2)] for _ in range(m1)]
                cs = shape[:k] + [m1, m2, m3] + shape[k + 1:]
            else:
                p['dofmap'] = [[self.integers(0, n - 1) for _ in range(m2)] for _ in range(m1)]
                cs = shape[:k] + [m1, m2] + shape[k + 1:]
        elif kind == 'arg':
            m = self.length()
            if m == 0: m = 1
            ch = [self.index_arg(m, n)]
            cs = shape[:k] + [m] + shape[k + 1:]
        else:
            m = self.length()
            style = self.choice(['any', 'unique', 'any'])
            if style == 'unique' and m <= n:
                p['dofmap'] = list(self.draw(st.permutations(list(range(n))))[:m])
                if self.boolean(0.5): p['dofmap'].sort()
            else:
                p['dofmap'] = [self.integers(0, n - 1) for _ in range(m)]
            cs = shape[:k] + [m] + shape[k + 1:]
        c = self.gen(dtype, cs, depth, 'inflate')
        return self.emit('inflate', [c] + ch, p, dtype, shape)

    def g_ravel(self, dtype, shape, depth):
        if len(shape) >= 4: return None
        k = self.integers(0, len(shape) - 1)
        n = shape[k]
        facs = [(a, n // a) for a in range(1, n + 1) if n % a == 0] if n else [(0, self.length()), (self.length(), 0)]
        a, b = self.choice(facs)
        return self.emit('ravel', [self.gen(dtype, shape[:k] + [a, b] + shape[k + 1:], depth, 'ravel')], dict(axis=k), dtype, shape)

    def g_unravel(self, dtype, shape, depth):
        k = self.integers(0, len(shape) - 2)
        a, b = shape[k], shape[k + 1]
        if a * b > 8: return None
        return self.emit('unravel', [self.gen(dtype, shape[:k] + [a * b] + shape[k + 2:], depth, 'unravel')], dict(axis=k, a=a, b=b), dtype, shape)

    def g_det(self, dtype, shape, depth):
        n = self.choice([1, 2, 2, 3])
        return self.emit('det', [self.gen(dtype, shape + [n, n], depth, 'det')], {}, dtype, shape)

    def g_inv(self, dtype, shape, depth):
        return self.emit('inv', [self.gen(dtype, shape, depth, 'inv')], dict(shift=self.choice([3., 4., -5., 0.])), dtype, shape)

    def g_choose(self, dtype, shape, depth):
        if len(shape) >= 4: return None
        k = self.choice([1, 2, 2, 3])
        idx = self.gen('int', shape, depth, 'choose')
        choices = self.gen(dtype, shape + [k], depth, 'choose')
        return self.emit('choose', [idx, choices], dict(k=k), dtype, shape)

    def g_stack(self, dtype, shape, depth):
        k = self.integers(0, len(shape) - 1)
        if not 1 <= shape[k] <= 3: return None
        ch = [self.gen(dtype, shape[:k] + shape[k + 1:], depth, 'stack') for _ in range(shape[k])]
        return self.emit('stack', ch, dict(axis=k), dtype, shape)

    def g_concat(self, dtype, shape, depth):
        k = self.integers(0, len(shape) - 1)
        n = shape[k]
        a = self.integers(0, n)
        ch = [self.gen(dtype, shape[:k] + [l] + shape[k + 1:], depth, 'concat') for l in (a, n - a)]
        return self.emit('concat', ch, dict(axis=k), dtype, shape)

    def g_dot(self, dtype, shape, depth):
        if len(shape) >= 3: return None
        k = self.integers(0, len(shape))
        n = self.length()
        cs = shape[:k] + [n] + shape[k:]
        a = self.gen(dtype, cs, depth, 'mul')
        b = self.twin(a, depth) if self.boolean(0.35) and self.free[a] <= set(self.active) else None
        if b is None:
            b = self.gen(dtype, cs, depth, 'mul')
        return self.emit('dot', [a, b], dict(axis=k), dtype, shape)

    def g_polyval(self, dtype, shape, depth):
        if len(shape) > 3: return None
        k = self.integers(0, len(shape))     # split: points axes shape[:k], coefficient axes shape[k:]
        nv = self.choice([1, 1, 2])
        deg = self.choice([0, 1, 2, 2, 3] if nv == 1 else [0, 1, 2])
        nc = deg + 1 if nv == 1 else (deg + 1) * (deg + 2) // 2
        coeffs = self.gen('float', shape[k:] + [nc], depth, 'polyval')
        points = self.gen('float', shape[:k] + [nv], depth, 'polyval')
        return self.emit('polyval', [coeffs, points], dict(nv=nv), dtype, shape)

    def g_legendre(self, dtype, shape, depth):
        return self.emit('legendre', [self.gen('float', shape[:-1], depth, 'unary')], dict(degree=shape[-1] - 1), dtype, shape)

    def g_ravelindex(self, dtype, shape, depth):
        k = self.integers(0, len(shape))
        na, nb = self.integers(1, 3), self.integers(1, 3)
        a = self.gen('int', shape[:k], depth, 'mod')
        b = self.gen('int', shape[k:], depth, 'mod')
        return self.emit('ravelindex', [a, b], dict(na=na, nb=nb), dtype, shape)

    def g_normdim(self, dtype, shape, depth):
        return self.emit('normdim', [self.gen('int', shape, depth, 'mod')], dict(n=self.integers(1, 4)), dtype, shape)

    def g_searchsorted(self, dtype, shape, depth):
        table = sorted(self.choice(IVALS) for _ in range(self.integers(0, 4)))
        return self.emit('searchsorted', [self.gen('int', shape, depth, 'add')], dict(table=table, side=self.choice(['left', 'right'])), dtype, shape)

    # loops
    def _loopname(self):
        used = {n for n, _ in self.active}
        pool = [n for n in ('L0', 'L1', 'L2', 'L3') if n not in used]
        return self.choice(pool[:2])

    def g_loopsum(self, dtype, shape, depth):
        if self.nloops >= self.maxloops or len(self.active) >= 3: return None
        self.nloops += 1
        name = self._loopname()
        L = self.choice([1, 2, 2, 3, 3, 4, 0])
        self.active.append((name, L))
        try:
            c = self.gen(dtype, shape, depth, 'loopsum')
        finally:
            self.active.pop()
        return self.emit('loopsum', [c], dict(loop=name, length=L), dtype, shape)

    def g_loopcat(self, dtype, shape, depth):
        if self.nloops >= self.maxloops or len(self.active) >= 3: return None
        n = shape[-1]
        name = self._loopname()
        varsize = self.boolean(0.4) and all(shape[:-1])
        if varsize:
            # element dependent chunk sizes: a composition of n into L parts (zeros allowed)
            L = self.choice([1, 2, 2, 3, 3])
            cuts = sorted(self.integers(0, n) for _ in range(L - 1))
            sizes = [b - a for a, b in zip([0] + cuts, cuts + [n])]
            if len(set(sizes)) == 1:
                varsize = False
                c = sizes[0]
        if not varsize:
            Ls = [l for l in (1, 2, 3, 4) if n % l == 0] if n else [1, 2, 3]
            L = self.choice(Ls)
            c = n // L if n else 0
            sizes = [c] * L
        self.nloops += 1
        self.active.append((name, L))
        try:
            if varsize:
                # body: elemwise tables of different last-axis length, combined elementwise with loop-invariant-shaped data is not
                # possible (shapes differ per iteration), so the body is a pointwise function of an elemwise leaf
                tables = [self.const_values(dtype, shape[:-1] + [s]) for s in sizes]
                body = self.emit('elemwise', [], dict(loop=name, length=L, tables=tables, shapes=[shape[:-1] + [s] for s in sizes]), dtype, shape[:-1] + [-1])
                if dtype in ('float', 'complex') and self.boolean(0.5):
                    body = self.emit('unary', [body], dict(f=self.choice(['sin', 'cos', 'exp'])), dtype, shape[:-1] + [-1])
                elif dtype != 'bool' and self.boolean(0.5):
                    body = self.emit('mul', [body, body], {}, dtype, shape[:-1] + [-1])
            else:
                body = self.gen(dtype, shape[:-1] + [c], depth, 'loopcat')
        finally:
            self.active.pop()
        return self.emit('loopcat', [body], dict(loop=name, length=L, sizes=sizes), dtype, shape)


@st.composite
def programs(draw, maxnodes=12, maxdepth=5, maxloops=2, nouts=1, dtypes=('bool', 'int', 'float', 'complex'), ops=None,
             out_dtypes=None, maxdim=3, differentiable=False, allow_args=True, family_bias=0.4, arg_bias=1, root_outer=0.0):
    g = Gen(draw, maxnodes=maxnodes, maxdepth=maxdepth, maxloops=maxloops, ops=ops, dtypes=dtypes, differentiable=differentiable,
            allow_args=allow_args, family_bias=family_bias, arg_bias=arg_bias)
    outs = []
    k = draw(st.integers(1, nouts))
    for i in range(k):
        dtype = draw(st.sampled_from(list(out_dtypes or dtypes)))
        nd = draw(st.sampled_from([0, 1, 1, 2, 2, 3][:2 * maxdim]))
        shape = [g.length() for _ in range(nd)]
        if i and draw(st.booleans()):
            # second output of the same type as an earlier one, to encourage shared subterms
            dtype, shape = g.nodes[outs[0]]['t']
        if root_outer and len(shape) >= 2 and dtype != 'bool' and g.boolean(root_outer):
            outs.append(g.outer_product(dtype, shape, maxdepth - 1))      # the output itself is a product of factors on disjoint axes (sparse expansion by clusters)
        else:
            outs.append(g.gen(dtype, shape, maxdepth))
    # drop unreachable nodes and renumber
    return prune(dict(nodes=g.nodes, outs=outs, args=g.args))


@st.composite
def outer_loop_programs(draw, maxnodes=12, maxdepth=4, nouts=1, dtypes=('int', 'float', 'complex')):
    """programs whose outputs are loops of 3..12 iterations with a body that depends on the loop index (for the parallel checks)"""
    g = Gen(draw, maxnodes=maxnodes, maxdepth=maxdepth, maxloops=2, dtypes=dtypes + ('bool',), family_bias=0.5)
    outs = []
    for k in range(draw(st.integers(1, nouts))):
        dtype = draw(st.sampled_from(list(dtypes)))
        L = draw(st.sampled_from([3, 4, 5, 6, 8, 12]))
        name = 'P%d' % k if draw(st.booleans()) else 'P0'
        kind = draw(st.sampled_from(['loopsum', 'loopsum', 'loopcat']))
        nd = draw(st.sampled_from([0, 1, 1, 2]))
        shape = [g.length(1) for _ in range(nd)]
        g.active.append((name, L)); g.nloops += 1
        try:
            body = g.gen(dtype, shape, maxdepth - 1, 'loopsum')
            if (name, L) not in g.free[body]:
                # make the body depend on the index: add an element-wise table
                tables = [g.const_values(dtype, shape) for _ in range(L)]
                ew = g.emit('elemwise', [], dict(loop=name, length=L, tables=tables), dtype, shape)
                body = g.emit('add', [body, ew], {}, dtype, shape)
            if kind == 'loopsum' and shape and draw(st.booleans()):
                # scatter every iteration's contribution into a shared accumulator
                n = max(shape[-1], 1)
                big = shape[:-1] + [n + L - 1] if False else shape
        finally:
            g.active.pop()
        if kind == 'loopsum' or not shape:
            outs.append(g.emit('loopsum', [body], dict(loop=name, length=L), dtype, shape))
        else:
            outs.append(g.emit('loopcat', [body], dict(loop=name, length=L, sizes=[shape[-1]] * L), dtype, shape[:-1] + [shape[-1] * L]))
    return prune(dict(nodes=g.nodes, outs=outs, args=g.args))


def prune(prog):
    keep = set()
    stack = list(prog['outs'])
    while stack:
        i = stack.pop()
        if i in keep: continue
        keep.add(i)
        stack.extend(prog['nodes'][i]['ch'])
    order = sorted(keep)
    ren = {o: n for n, o in enumerate(order)}
    nodes = []
    for o in order:
        n = dict(prog['nodes'][o])
        n['ch'] = [ren[c] for c in n['ch']]
        nodes.append(n)
    used = {n['p']['name'] for n in nodes if n['op'] in ('arg', 'idxarg')}
    return dict(nodes=nodes, outs=[ren[o] for o in prog['outs']], args={k: v for k, v in prog['args'].items() if k in used})


# ---------------------------------------------------------------------------------------------
# independent numpy reference

class NonFinite(Exception):
    pass


def _arr(vals, dtype, shape):
    if dtype == 'complex':
        a = numpy.array([complex(v[0], v[1]) for v in vals], dtype=complex)
    else:
        a = numpy.array(vals, dtype=NPDT[dtype])
    return a.reshape(shape)


def _det_cofactor(a, nn):
    if nn == 2: return a[..., 0, 0] * a[..., 1, 1] - a[..., 0, 1] * a[..., 1, 0]
    return (a[..., 0, 0] * (a[..., 1, 1] * a[..., 2, 2] - a[..., 1, 2] * a[..., 2, 1])
            - a[..., 0, 1] * (a[..., 1, 0] * a[..., 2, 2] - a[..., 1, 2] * a[..., 2, 0])
            + a[..., 0, 2] * (a[..., 1, 0] * a[..., 2, 1] - a[..., 1, 1] * a[..., 2, 0]))


class Ref:
    def __init__(self, prog, smooth=False):
        self.smooth = smooth   # also reject points where a composed operator is not differentiable (C04)
        self.prog = prog
        self.nodes = prog['nodes']

    def argvalues(self, eps=0.0):
        out = {}
        for k, (name, a) in enumerate(sorted(self.prog['args'].items())):
            v = _arr(a['value'], a['dtype'], a['shape'])
            if eps and a['dtype'] in ('float', 'complex'):
                v = v * (1 + eps * (1 + (k % 3)) * (-1) ** k)
            out[name] = v
        return out

    def run(self, args=None, eps=0.0):
        """returns list of output arrays; raises NonFinite when any intermediate is not finite or too large"""
        self.args = self.argvalues(eps) if args is None else args
        self.eps = eps
        self.cache = {}
        self.maxmag = 0.0      # largest magnitude among the floating point intermediates seen so far: the scale of rounding noise after cancellation
        with numpy.errstate(all='ignore'):
            return [self.ev(o, {}) for o in self.prog['outs']]

    _MOVES = ('insertaxis', 'transpose', 'ravel', 'unravel', 'cast', 'neg', 'real', 'guard', 'take', 'takediag', 'diagonalize')

    def exactish(self, i):
        """is node i a value without rounding history: a leaf, an integer, or data movement of one"""
        n = self.nodes[i]
        while True:
            if n['t'][0] in ('int', 'bool') or n['op'] in ('zeros', 'ones', 'const', 'arg', 'idxarg', 'range', 'loopidx'):
                return True
            if n['op'] in self._MOVES and n['ch']:
                n = self.nodes[n['ch'][0]]
                continue
            return False

    def ev(self, i, env):
        n = self.nodes[i]
        key = (i, tuple(sorted(env.items())))
        if key in self.cache:
            return self.cache[key]
        v = self._ev(i, n, env)
        v = numpy.asarray(v)
        dtype = n['t'][0]
        if v.dtype != NPDT[dtype]:
            raise AssertionError(f'reference dtype bug at node {i} {n["op"]}: {v.dtype} vs {dtype}')
        exp = n['t'][1]
        if -1 not in exp and list(v.shape) != list(exp):
            raise AssertionError(f'reference shape bug at node {i} {n["op"]}: {v.shape} vs {exp}')
        if v.dtype.kind in 'fc':
            if not numpy.isfinite(v).all() or (v.size and abs(v).max() > 1e8):
                raise NonFinite(f'node {i} {n["op"]}')
            if v.size:
                self.maxmag = max(self.maxmag, float(abs(v).max()))
        elif v.dtype.kind == 'i':
            if v.size and abs(v).max() > 2 ** 40:
                raise NonFinite(f'node {i} {n["op"]} int overflow')
        self.cache[key] = v
        return v

    def pert(self, i, v):
        if self.eps and v.dtype.kind in 'fc':
            return v * (1 + self.eps * (1 + i % 3) * (-1) ** i)
        return v

    def _ev(self, i, n, env):
        op, p = n['op'], n['p']
        dtype, shape = n['t']
        C = lambda k: self.ev(n['ch'][k], env)
        if op == 'const':
            return self.pert(i, _arr(p['v'], dtype, shape))
        if op == 'zeros':
            return numpy.zeros(shape, NPDT[dtype])
        if op == 'ones':
            return numpy.ones(shape, NPDT[dtype])
        if op == 'arg' or op == 'idxarg':
            return self.args[p['name']]
        if op == 'loopidx':
            return numpy.int64(env[p['loop']])
        if op == 'range':
            return numpy.arange(shape[0], dtype=numpy.int64) + p['offset']
        if op == 'elemwise':
            j = env[p['loop']]
            shp = p['shapes'][j] if 'shapes' in p else shape
            return self.pert(i, _arr(p['tables'][j], dtype, shp))
        if op == 'add':
            a, b = C(0), C(1)
            return numpy.logical_or(a, b) if dtype == 'bool' else a + b
        if op == 'mul':
            a, b = C(0), C(1)
            return numpy.logical_and(a, b) if dtype == 'bool' else a * b
        if op == 'sub': return C(0) - C(1)
        if op == 'neg': return -C(0)
        if op == 'not': return numpy.logical_not(C(0))
        if op == 'div': return C(0) / C(1)
        if op == 'conj': return numpy.conjugate(C(0))
        if op == 'min': return numpy.minimum(C(0), C(1))
        if op == 'max': return numpy.maximum(C(0), C(1))
        if op == 'mod':
            d = abs(C(1)) + (1 if dtype == 'int' else .5)
            return numpy.mod(C(0), d)
        if op == 'floordiv':
            return numpy.floor_divide(C(0), abs(C(1)) + 1)
        if op == 'arctan2':
            a, b = C(0), C(1)
            if ((a == 0) & (b <= 0)).any():
                raise NonFinite('arctan2 on its branch cut (depends on the sign of zero)')
            if self.smooth and ((abs(a) < 1e-3) & (b < 1e-3)).any():
                raise NonFinite('arctan2 within a margin of its branch cut or the origin: not differentiable there')
            return numpy.arctan2(a, b)
        if op == 'pow':
            if self.smooth and (C(0) == 0).any():
                raise NonFinite('abs at zero is not differentiable')
            return numpy.power(abs(C(0)) + .5, C(1))
        if op == 'guard': return C(0)
        if op == 'abs': return numpy.abs(C(0))
        if op == 'sign':
            a = C(0)
            if a.dtype.kind in 'fc' and not self.exactish(n['ch'][0]) and (abs(a) <= 1e-12 * self.maxmag).any():
                # a computed value that is zero up to rounding (cancellation, underflow): its sign is that of the rounding error
                raise NonFinite('sign of a computed value that vanishes up to rounding')
            return numpy.sign(a)
        if op == 'real': return numpy.real(C(0))
        if op == 'imag': return numpy.imag(C(0))
        if op in ('greater', 'less', 'equal'):
            a, b = C(0), C(1)
            if a.dtype.kind in 'fc' or b.dtype.kind in 'fc':
                # two floating point values that agree to rounding error (for instance x and (x^-1)^-1) compare differently depending on how they were
                # rounded: a discontinuity, not a statement about values. Exactly equal operands that are the same node are fine.
                near = (abs(a - b) <= 1e-9 * (abs(a) + abs(b))) & ~((a == b) & (n['ch'][0] == n['ch'][1]))
                if numpy.any(near & ((a != b) | (abs(a) + abs(b) > 0))):
                    raise NonFinite('comparison of floating point values that are equal up to rounding')
                # the same after cancellation: a difference below the rounding noise of the largest intermediate (x-x+y against y, a sum that cancels against 0)
                if n['ch'][0] != n['ch'][1] and not (self.exactish(n['ch'][0]) and self.exactish(n['ch'][1])) and numpy.any(abs(a - b) <= 1e-12 * self.maxmag):
                    raise NonFinite('comparison of floating point values that are equal up to the rounding noise of the computation')
            return getattr(numpy, op)(a, b)
        if op == 'less': return numpy.less(C(0), C(1))
        if op == 'equal': return numpy.equal(C(0), C(1))
        if op == 'powc':
            a = C(0)
            if self.smooth and p['e'] != int(p['e']) and (a == 0).any():
                raise NonFinite('fractional power at zero is not differentiable')
            if dtype == 'complex' and p['e'] != int(p['e']) and ((a.imag == 0) & (a.real <= 0)).any():
                raise NonFinite('complex power on its branch cut (depends on the sign of zero)')
            return numpy.power(a, NPDT[dtype](p['e']))
        if op == 'powi':
            return numpy.power(C(0), p['e'])
        if op == 'unary':
            x = C(0); f = p['f']
            if self.smooth and f in ('log1pabs', 'sqrtabs', 'recip_s') and (x == 0).any():
                raise NonFinite('abs at zero is not differentiable')
            if f == 'log1pabs': return numpy.log(abs(x) + 1)
            if f in ('arcsin_t', 'arccos_t') and self.smooth and (abs(numpy.tanh(x)) > 1 - 1e-9).any():
                raise NonFinite('arcsin/arccos at the end of its domain is not differentiable')
            if f == 'arcsin_t': return numpy.arcsin(numpy.tanh(x))
            if f == 'arccos_t': return numpy.arccos(numpy.tanh(x))
            if f == 'arctanh_t': return numpy.arctanh(numpy.tanh(x) * .5)
            if f == 'arctan_h':
                if ((x.real == 0) & (abs(x.imag) >= 4)).any():
                    raise NonFinite('arctan on its branch cut')
                return numpy.arctan(x * .25)
            if f == 'sqrtabs': return numpy.sqrt(abs(x))
            if f == 'recip_s': return 1 / (abs(x) + .5)
            if f == 'sinc': return numpy.sinc(x / numpy.pi)
            return getattr(numpy, f)(x)
        if op == 'cast': return C(0).astype(NPDT[dtype])
        if op == 'insertaxis':
            return numpy.broadcast_to(numpy.expand_dims(C(0), p['axis']), shape).copy()
        if op == 'transpose': return numpy.transpose(C(0), p['perm'])
        if op == 'sum':
            a = C(0)
            return a.any(p['axis']) if dtype == 'bool' else a.sum(p['axis'])
        if op == 'product':
            a = C(0)
            return a.all(p['axis']) if dtype == 'bool' else a.prod(p['axis'])
        if op == 'takediag':
            a = C(0); ax, rm = p['axis'], p['rmaxis']
            d = numpy.diagonal(a, axis1=ax, axis2=rm)
            return numpy.moveaxis(d, -1, ax - (ax >= rm)).copy()
        if op == 'diagonalize':
            a = C(0); ax, new = p['axis'], p['newaxis']
            m = numpy.moveaxis(a, ax, -1)
            nlen = m.shape[-1]
            out = numpy.zeros(m.shape + (nlen,), dtype=a.dtype)
            for j in range(nlen):
                out[..., j, j] = m[..., j]
            return numpy.moveaxis(out, [-2, -1], [ax + (ax >= new), new]).copy()
        if op == 'get':
            return numpy.take(C(0), p['item'], axis=p['axis'])
        if op == 'getidx':
            return numpy.take(C(0), int(C(1)), axis=p['axis'])
        if op == 'take':
            a = C(0); k = p['axis']
            if p['kind'] == 'slice':
                idx = numpy.arange(shape[k]) + p['start']
            elif p['kind'] == 'mask':
                idx = numpy.nonzero(numpy.array(p['mask'], dtype=bool))[0]
            elif p['kind'] == 'arg':
                idx = C(1)
            else:
                idx = numpy.array(p['index'], dtype=int)
            return numpy.take(a, idx, axis=k)
        if op == 'inflate':
            a = C(0); k = p['axis']
            out = numpy.zeros(shape, dtype=a.dtype)
            if p['kind'] == 'scalar' or p['kind'] == 'loop':
                dof = p['dof'] if p['kind'] == 'scalar' else int(C(1)) + p['offset']
                sl = [slice(None)] * len(shape); sl[k] = dof
                out[tuple(sl)] = a
                return out
            if p['kind'] == 'block':
                dm = numpy.array(p['dofmap'], dtype=int)
                am = numpy.moveaxis(a, list(range(k, k + dm.ndim)), list(range(-dm.ndim, 0)))
                om = numpy.moveaxis(out, k, -1)
                for ii in numpy.ndindex(*dm.shape):
                    if a.dtype == bool: om[..., dm[ii]] |= am[(..., *ii)]
                    else: om[..., dm[ii]] += am[(..., *ii)]
                return out
            dm = C(1) if p['kind'] == 'arg' else numpy.array(p['dofmap'], dtype=int)
            am = numpy.moveaxis(a, k, -1)
            om = numpy.moveaxis(out, k, -1)
            for j, d in enumerate(dm):
                if a.dtype == bool: om[..., d] |= am[..., j]
                else: om[..., d] += am[..., j]
            return out
        if op == 'ravel':
            a = C(0); k = p['axis']
            return a.reshape(a.shape[:k] + (a.shape[k] * a.shape[k + 1],) + a.shape[k + 2:])
        if op == 'unravel':
            a = C(0); k = p['axis']
            return a.reshape(a.shape[:k] + (p['a'], p['b']) + a.shape[k + 1:])
        if op == 'det':
            a = C(0)
            nn = a.shape[-1]
            # cofactor expansion (exact on dyadic data, unlike LU)
            if nn == 1: return a[..., 0, 0]
            if a.dtype.kind in 'fc' and a.size:
                # a (nearly) singular floating point matrix: the LU determinant carries a rounding error of eps*|rows| that the exact
                # cofactor value (0) does not show and that later operations amplify: ill-conditioned, not a statement about values
                had = numpy.prod(numpy.sqrt((abs(a) ** 2).sum(-1)), axis=-1)
                d = _det_cofactor(a, nn)
                if ((abs(d) < 1e-6 * had) & (had > 1e3)).any():
                    raise NonFinite('determinant of a nearly singular matrix with large entries')
                if self.eps:
                    # a determinant is only known up to an absolute error proportional to the product of the row norms: the perturbed run moves it
                    # by that much, so that anything discontinuous downstream (comparison with the exact 0 of a singular matrix) is recognised as kink-sensitive
                    d = d + self.eps * had
                return d
            return _det_cofactor(a, nn)
        if op == 'inv':
            a = C(0) + p['shift'] * numpy.eye(shape[-1])
            try:
                r = numpy.linalg.inv(a)
            except numpy.linalg.LinAlgError:
                raise NonFinite('singular')
            if a.size and numpy.linalg.cond(a).max() > 1e4:
                raise NonFinite('ill-conditioned inverse')
            return r
        if op == 'choose':
            idx = numpy.mod(C(0), p['k'])
            ch = C(1)
            return numpy.take_along_axis(ch, idx[..., None], axis=-1)[..., 0]
        if op == 'stack':
            return numpy.stack([C(j) for j in range(len(n['ch']))], axis=p['axis'])
        if op == 'concat':
            return numpy.concatenate([C(0), C(1)], axis=p['axis'])
        if op == 'dot':
            return (C(0) * C(1)).sum(p['axis'])
        if op == 'polyval':
            import nutils_poly
            return nutils_poly.eval_outer(numpy.ascontiguousarray(C(0), dtype=float), numpy.ascontiguousarray(C(1), dtype=float))
        if op == 'legendre':
            x = C(0)
            return numpy.moveaxis(numpy.polynomial.legendre.legval(x, numpy.eye(p['degree'] + 1)), 0, -1)
        if op == 'ravelindex':
            ia = numpy.mod(C(0), p['na']); ib = numpy.mod(C(1), p['nb'])
            return ia[(...,) + (None,) * ib.ndim] * p['nb'] + ib
        if op == 'normdim':
            idx = numpy.mod(C(0), 2 * p['n']) - p['n']
            return numpy.where(idx < 0, idx + p['n'], idx)
        if op == 'searchsorted':
            return numpy.searchsorted(numpy.array(p['table'], dtype=numpy.int64), C(0), side=p['side']).astype(numpy.int64)
        if op == 'loopsum':
            acc = numpy.zeros(shape, NPDT[dtype])
            for j in range(p['length']):
                acc = acc + self.ev(n['ch'][0], {**env, p['loop']: j})
            return acc
        if op == 'loopcat':
            parts = [self.ev(n['ch'][0], {**env, p['loop']: j}) for j in range(p['length'])]
            if not parts:
                return numpy.zeros(shape, NPDT[dtype])
            return numpy.concatenate(parts, axis=-1)
        raise NotImplementedError(op)


# ---------------------------------------------------------------------------------------------
# nutils builder

def build(prog):
    """returns (list of output evaluables, dict idx->evaluable)"""
    from nutils import evaluable as ev, types
    built = {}
    c = ev.constant

    def const(vals, dtype, shape):
        return ev.Constant(types.arraydata(_arr(vals, dtype, shape)))

    def shp(shape):
        return tuple(c(int(s)) for s in shape)

    for i, n in enumerate(prog['nodes']):
        op, p = n['op'], n['p']
        dtype, shape = n['t']
        C = lambda k: built[n['ch'][k]]
        T = DT[dtype]
        if op == 'const': r = const(p['v'], dtype, shape)
        elif op == 'zeros': r = ev.zeros(shp(shape), T)
        elif op == 'ones': r = ev.ones(shp(shape), T)
        elif op == 'arg': r = ev.Argument(p['name'], shp(shape), T)
        elif op == 'idxarg': r = ev.InRange(ev.Argument(p['name'], shp(shape), int), c(p['n']))
        elif op == 'loopidx': r = ev.loop_index(p['loop'], p['length'])
        elif op == 'range': r = ev.Range(c(shape[0])) + p['offset']
        elif op == 'elemwise':
            shapes = p.get('shapes') or [shape] * p['length']
            r = ev.Elemwise(tuple(types.arraydata(_arr(t, dtype, s)) for t, s in zip(p['tables'], shapes)), ev.loop_index(p['loop'], p['length']), T)
        elif op == 'add': r = ev.add(C(0), C(1))
        elif op == 'mul': r = ev.multiply(C(0), C(1))
        elif op == 'sub': r = ev.subtract(C(0), C(1))
        elif op == 'neg': r = ev.negative(C(0))
        elif op == 'not': r = ev.LogicalNot(C(0))
        elif op == 'div': r = ev.divide(C(0), C(1))
        elif op == 'conj': r = ev.conjugate(C(0))
        elif op == 'min': r = ev.Minimum(C(0), C(1))
        elif op == 'max': r = ev.Maximum(C(0), C(1))
        elif op == 'mod':
            d = ev.add(ev.abs(C(1)), ev.constant(1 if dtype == 'int' else .5))
            r = ev.mod(C(0), d)
        elif op == 'floordiv':
            r = ev.FloorDivide(*ev._numpy_align(C(0), ev.add(ev.abs(C(1)), ev.constant(1))))
        elif op == 'arctan2': r = ev.arctan2(C(0), C(1))
        elif op == 'pow': r = ev.power(ev.add(ev.abs(C(0)), ev.constant(.5)), C(1))
        elif op == 'guard': r = ev.Guard(C(0))
        elif op == 'abs': r = ev.abs(C(0))
        elif op == 'sign': r = ev.sign(C(0))
        elif op == 'real': r = ev.real(C(0))
        elif op == 'imag': r = ev.imag(C(0))
        elif op == 'greater': r = ev.Greater(C(0), C(1))
        elif op == 'less': r = ev.Less(C(0), C(1))
        elif op == 'equal': r = ev.Equal(C(0), C(1))
        elif op == 'powc': r = ev.power(C(0), ev.constant(T(p['e'])))
        elif op == 'powi': r = ev.power(C(0), ev.constant(int(p['e'])))
        elif op == 'unary':
            x = C(0); f = p['f']
            if f == 'log1pabs': r = ev.ln(ev.add(ev.abs(x), ev.constant(1.)))
            elif f == 'arcsin_t': r = ev.arcsin(ev.tanh(x))
            elif f == 'arccos_t': r = ev.arccos(ev.tanh(x))
            elif f == 'arctanh_t': r = ev.arctanh(ev.multiply(ev.tanh(x), ev.constant(.5)))
            elif f == 'arctan_h': r = ev.arctan(ev.multiply(x, ev.constant(.25 + 0j)))
            elif f == 'sqrtabs': r = ev.sqrt(ev.abs(x))
            elif f == 'recip_s': r = ev.reciprocal(ev.add(ev.abs(x), ev.constant(.5)))
            else: r = getattr(ev, f)(x)
        elif op == 'cast': r = ev.astype(C(0), T)
        elif op == 'insertaxis': r = ev.insertaxis(C(0), p['axis'], c(shape[p['axis']]))
        elif op == 'transpose': r = ev.transpose(C(0), p['perm'])
        elif op == 'sum': r = ev.sum(C(0), p['axis'])
        elif op == 'product': r = ev.product(C(0), p['axis'])
        elif op == 'takediag': r = ev.takediag(C(0), p['axis'], p['rmaxis'])
        elif op == 'diagonalize': r = ev.diagonalize(C(0), p['axis'], p['newaxis'])
        elif op == 'get': r = ev.get(C(0), p['axis'], ev.constant(p['item'] % prog['nodes'][n['ch'][0]]['t'][1][p['axis']]))
        elif op == 'getidx': r = ev.get(C(0), p['axis'], C(1))
        elif op == 'take':
            k = p['axis']
            if p['kind'] == 'slice':
                r = ev._takeslice(C(0), slice(p['start'], p['start'] + shape[k]), k)
            elif p['kind'] == 'mask':
                r = ev.take(C(0), ev.constant(numpy.array(p['mask'], dtype=bool)), k)
            elif p['kind'] == 'arg':
                r = ev.take(C(0), C(1), k)
            else:
                r = ev.take(C(0), ev.constant(numpy.array(p['index'], dtype=int)), k)
        elif op == 'inflate':
            k = p['axis']; length = c(shape[k])
            if p['kind'] == 'scalar': dm = c(p['dof'])
            elif p['kind'] == 'loop': dm = C(1) + p['offset'] if p['offset'] else C(1)
            elif p['kind'] == 'arg': dm = C(1)
            else: dm = ev.constant(numpy.array(p['dofmap'], dtype=int).reshape((-1,) if p['kind'] != 'block' else numpy.shape(p['dofmap'])))
            r = ev._inflate(C(0), dm, length, k)
        elif op == 'ravel': r = ev.ravel(C(0), p['axis'])
        elif op == 'unravel': r = ev.unravel(C(0), p['axis'], (c(p['a']), c(p['b'])))
        elif op == 'det': r = ev.determinant(C(0))
        elif op == 'inv':
            x = C(0)
            if p['shift']:
                eye = ev.diagonalize(ev.ones(shp(shape[:-1]), T))
                x = ev.add(x, ev.multiply(eye, ev.constant(T(p['shift']))))
            r = ev.inverse(x)
        elif op == 'choose':
            idx = ev.mod(C(0), ev.constant(p['k']))
            r = ev.Choose(idx, C(1))
        elif op == 'stack': r = ev.stack([C(j) for j in range(len(n['ch']))], p['axis'])
        elif op == 'concat': r = ev.concatenate([C(0), C(1)], p['axis'])
        elif op == 'dot': r = ev.dot(C(0), C(1), p['axis'])
        elif op == 'polyval': r = ev.Polyval(C(0), C(1))
        elif op == 'legendre': r = ev.Legendre(C(0), p['degree'])
        elif op == 'ravelindex':
            r = ev.RavelIndex(ev.mod(C(0), ev.constant(p['na'])), ev.mod(C(1), ev.constant(p['nb'])), c(p['na']), c(p['nb']))
        elif op == 'normdim':
            idx = ev.subtract(ev.mod(C(0), ev.constant(2 * p['n'])), ev.constant(p['n']))
            r = ev.NormDim(ev.prependaxes(c(p['n']), idx.shape), idx)
        elif op == 'searchsorted':
            r = ev.SearchSorted(C(0), array=ev.constant(numpy.array(p['table'], dtype=int)), side=p['side'], sorter=None)
        elif op == 'loopsum': r = ev.loop_sum(C(0), ev.loop_index(p['loop'], p['length']))
        elif op == 'loopcat': r = ev.loop_concatenate(C(0), ev.loop_index(p['loop'], p['length']))
        else: raise NotImplementedError(op)
        if r.ndim != len(shape) or r.dtype is not T:
            raise AssertionError(f'builder bug at node {i} {op}: ndim={r.ndim} dtype={r.dtype} expected {dtype} {shape}')
        built[i] = r
    return [built[o] for o in prog['outs']], built


def nutils_args(prog, ref_args):
    return {k: numpy.array(v) for k, v in ref_args.items()}


def features(prog):
    ops = [n['op'] for n in prog['nodes']]
    f = set(ops)
    return f


# ---- structural predicates of the open C01 non-termination findings (known_findings.json), shared by the properties downstream of C01

def known_loop_inflate_diag(prog):
    ops = {n['op'] for n in prog['nodes']}
    return 'diagonalize' in ops and bool(ops & {'inflate', 'take', 'concat', 'stack'})


def known_loop_takediag_inflate(prog):
    kinds = {n['p'].get('kind') for n in prog['nodes'] if n['op'] == 'inflate'}
    return any(n['op'] == 'takediag' for n in prog['nodes']) and 'scalar' in kinds and bool(kinds - {'scalar'})


def known_loop(prog):
    return known_loop_inflate_diag(prog) or known_loop_takediag_inflate(prog)
