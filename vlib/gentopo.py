"""G_topo: generated meshes, geometry maps and topology operation sequences (DESIGN.md section 3.3).

A mesh recipe is plain data: {'kind', 'n', 'periodic', 'ops': [[op, ...], ...], 'geom': {...}}.
build(recipe) -> (topo, geom, info) where info records the operations that were applicable.
"""
import numpy, warnings
from hypothesis import strategies as st

KINDS = ['line', 'rect', 'rect', 'tri', 'mixed', 'rect3', 'multipatch', 'periodic', 'simplex3']


@st.composite
def recipes(draw, kinds=KINDS, maxops=3, minops=0, ops=('refine', 'refined_by', 'take', 'boundary', 'interfaces', 'trim', 'boundary-group', 'slice'), maxn=3):
    kind = draw(st.sampled_from(list(kinds)))
    n = [draw(st.integers(1, maxn)) for _ in range(3)]
    k = draw(st.integers(minops, maxops))
    seq = []
    for _ in range(k):
        op = draw(st.sampled_from(list(ops)))
        if op == 'refined_by' or op == 'take':
            seq.append([op, [draw(st.integers(0, 60)) for _ in range(draw(st.integers(1, 4)))]])
        elif op == 'trim':
            seq.append([op, [draw(st.sampled_from([-1., -.5, .5, 1., .25, 0.])) for _ in range(3)], draw(st.sampled_from([.3, .45, .6, .15, .77])), draw(st.integers(0, 2))])
        elif op == 'boundary-group':
            seq.append([op, draw(st.sampled_from(['left', 'right', 'top', 'bottom', 'front', 'back']))])
        elif op == 'slice':
            seq.append([op, draw(st.integers(0, 2)), draw(st.integers(0, 2)), draw(st.integers(1, 3))])
        else:
            seq.append([op])
    geom = dict(kind=draw(st.sampled_from(['identity', 'affine', 'quadratic', 'affine'])), a=[draw(st.sampled_from([-.25, .25, .5, 0., -.5, .125])) for _ in range(12)])
    return dict(kind=kind, n=n, ops=seq, geom=geom)


def base_mesh(r):
    from nutils import mesh
    kind, n = r['kind'], r['n']
    if kind == 'line':
        topo, x = mesh.line(numpy.linspace(0, 1, n[0] + 2)); x = x[None]
    elif kind == 'rect':
        topo, x = mesh.rectilinear([numpy.linspace(0, 1, n[0] + 1), numpy.linspace(0, 1, n[1] + 1)])
    elif kind == 'periodic':
        topo, x = mesh.rectilinear([numpy.linspace(0, 1, n[0] + 4), numpy.linspace(0, 1, n[1] + 1)], periodic=[0])   # >= 4 elements in the periodic direction: fewer make a spline overlap itself
    elif kind == 'rect3':
        topo, x = mesh.rectilinear([numpy.linspace(0, 1, min(n[0], 2) + 1), numpy.linspace(0, 1, min(n[1], 2) + 1), numpy.linspace(0, 1, 2)])
    elif kind == 'tri':
        topo, x = mesh.unitsquare(n[0], 'triangle')
    elif kind == 'mixed':
        topo, x = mesh.unitsquare(max(n[0], 2), 'mixed')
    elif kind == 'multipatch':
        topo, x = mesh.unitsquare(n[0], 'multipatch') if False else mesh.multipatch(patches=[[0, 1, 3, 4], [1, 2, 4, 5]], patchverts=[[0, 0], [.5, 0], [1, 0], [0, 1], [.5, 1], [1, 1]], nelems=min(n[0], 2))
    elif kind == 'simplex3':
        # tetrahedralisation of the unit cube built by the generator: 6 tets around the main diagonal
        verts = numpy.array([[i, j, k] for i in (0., 1.) for j in (0., 1.) for k in (0., 1.)])
        import itertools
        tets = []
        for perm in itertools.permutations(range(3)):
            p = numpy.zeros(3); chain = [p.copy()]
            for ax in perm:
                p[ax] = 1; chain.append(p.copy())
            tets.append(sorted(int(c[0] * 4 + c[1] * 2 + c[2]) for c in chain))
        simplices = numpy.array(sorted(tets))
        topo, x = mesh.simplex(nodes=simplices, cnodes=simplices, coords=verts, tags={}, btags={}, ptags={})
    else:
        raise NotImplementedError(kind)
    return topo, x


def apply_ops(topo, x, ops, strict=False):
    """applies the operation sequence where applicable; returns topo and the list of applied operations"""
    from nutils import function
    applied = []
    ndims = topo.ndims
    for op in ops:
        name = op[0]
        done = [a[0] for a in applied]
        # combinations the library does not support (exercised and reported by C10, skipped elsewhere):
        #  - boundary/interfaces of a plain element selection (take): no connectivity available
        #  - refinement of a topology trimmed with maxrefine=0 (mosaic references cannot be refined)
        if name in ('boundary', 'interfaces', 'boundary-group') and 'take' in done and not strict:
            continue
        if name in ('refine', 'refined_by') and not strict and any(a[0] == 'trim' and sum(1 for q in applied[k + 1:] if q[0] in ('refine', 'refined_by')) >= a[3] for k, a in enumerate(applied)):
            continue      # a trimmed topology can be refined maxrefine times only (open finding C10-refine-after-trim-maxrefine0)
        #  - trimming a hierarchical topology / hierarchical refinement of a trimmed one (open findings C10-boundary-of-trimmed-hierarchical,
        #    C10-refined-by-cut-element: the boundary of the result is unavailable or not closed)
        if ((name == 'trim' and 'refined_by' in done) or (name == 'refined_by' and 'trim' in done)) and not strict:
            continue
        try:
            if name == 'refine':
                if len(topo) > 64: continue
                topo = topo.refined
            elif name == 'refined_by':
                if len(topo) == 0 or len(topo) > 64: continue
                sel = sorted({i % len(topo) for i in op[1]})
                topo = topo.refined_by(sel)
            elif name == 'take':
                if len(topo) <= 1: continue
                sel = sorted({i % len(topo) for i in op[1]})
                topo = topo.take(sel) if hasattr(topo, 'take') else topo[numpy.array(sel)]
            elif name == 'boundary':
                if topo.ndims < 2 or any(a[0] in ('boundary', 'interfaces', 'boundary-group') for a in applied): continue
                topo = topo.boundary
                len(topo.transforms)
            elif name == 'interfaces':
                if topo.ndims < 1 or any(a[0] in ('boundary', 'interfaces', 'boundary-group') for a in applied): continue
                t2 = topo.interfaces
                if len(t2) == 0: continue
                topo = t2
            elif name == 'trim':
                if any(a[0] in ('boundary', 'interfaces', 'boundary-group', 'trim') for a in applied) or topo.ndims != ndims or len(topo) > 40: continue
                c = op[1]
                lev = sum(ci * x[i] for i, ci in enumerate(c[:topo.ndims])) - op[2] * (sum(abs(ci) for ci in c[:topo.ndims]) or 1)
                t2 = topo.trim(lev, maxrefine=op[3])
                if len(t2) == 0: continue
                topo = t2
            elif name == 'boundary-group':
                if any(a[0] in ('boundary', 'interfaces') for a in applied) or topo.ndims < 2: continue
                topo = topo.boundary[op[1]]
            elif name == 'slice':
                r = slice_structured(topo, op)
                if r is None: continue
                topo = r[0]
            else:
                continue
        except (KeyError, NotImplementedError):
            continue
        except AttributeError:
            if strict: raise
            continue   # operation not supported on this kind of topology (C10 exercises these in strict mode)
        applied.append(op)
    return topo, applied


def slice_structured(topo, op):
    """window topo[..., a:b, ...] of a structured topology along one direction; returns (window, flat indices of the selected elements, direction) or None"""
    shape = getattr(topo, 'shape', None)
    if shape is None or not hasattr(topo, 'axes') or len(shape) != topo.ndims or len(topo) != int(numpy.prod(shape)):
        return None
    d = op[1] % topo.ndims
    a = op[2] % shape[d]
    b = min(a + op[3], shape[d])
    if b - a == shape[d] and d not in getattr(topo, 'periodic', ()):
        return None        # nothing selected away
    window = topo[(slice(None),) * d + (slice(a, b),)]
    idx = numpy.arange(len(topo)).reshape(shape)[(slice(None),) * d + (slice(a, b),)].ravel()
    return window, idx, d


def geometry(x, g, ndims, with_jac=False):
    """smooth invertible map of the unit box: identity, affine or a small quadratic perturbation (|det| stays well away from 0).
    returns (nutils geometry, numpy map X->Y[, numpy jacobian X->dY/dX])"""
    from nutils import function
    a = g['a']
    d = ndims
    if g['kind'] == 'identity':
        out = (x, lambda X: X, lambda X: numpy.broadcast_to(numpy.eye(d), (len(X), d, d)))
        return out if with_jac else out[:2]
    M = numpy.eye(d) + numpy.array(a[:d * d]).reshape(d, d) * .5
    if abs(numpy.linalg.det(M)) < .3:
        M = numpy.eye(d)
    b = numpy.array(a[9:9 + d])
    if g['kind'] == 'affine':
        out = (function.Array.cast(M) @ x + b, lambda X: X @ M.T + b, lambda X: numpy.broadcast_to(M, (len(X), d, d)))
        return out if with_jac else out[:2]
    q = numpy.array(a[:d]) * .2
    y = function.Array.cast(M) @ x
    quad = numpy.stack([y[i] + q[i] * x[(i + 1) % d] * x[(i + 1) % d] for i in range(d)])
    def f(X):
        Y = X @ M.T
        return numpy.stack([Y[:, i] + q[i] * X[:, (i + 1) % d] ** 2 for i in range(d)], axis=1)
    def jac(X):
        D = numpy.broadcast_to(M, (len(X), d, d)).copy()
        for i in range(d):
            D[:, i, (i + 1) % d] += 2 * q[i] * X[:, (i + 1) % d]
        return D
    out = (quad, f, jac)
    return out if with_jac else out[:2]


def build(r):
    with warnings.catch_warnings():
        warnings.simplefilter('ignore')
        topo0, x = base_mesh(r)
        topo, applied = apply_ops(topo0, x, r['ops'])
    return topo0, topo, x, applied
